----------------------------- MODULE TraceAPI -----------------------------
(***************************************************************************)
(* Validation of API-level traces recorded from the real library against   *)
(* the contract Cacache.tla.                                               *)
(*                                                                         *)
(* A trace is NDJSON (env TRACE).  Line 1 is a header                      *)
(*   {ev:"init", lens:{bytes id -> length}, reflink:bool, exact:bool}      *)
(* then                                                                    *)
(*   {ev:"call",  op:{...}, res:{...}}   a public call and what it returned*)
(*   {ev:"env",   op:{...}}              a change made behind the library's*)
(*                                       back (damage, external files)     *)
(*   {ev:"state", buckets, store, ext, tmp, hasIndex}                      *)
(*                                       projection of the directory made  *)
(*                                       by the independent reader         *)
(*   {ev:"reset"}                        a new run on a fresh directory    *)
(*                                                                         *)
(* The GHOST state (Cacache's variables) evolves only through the          *)
(* contract's actions applied to the logged calls; the expected result of  *)
(* each call is computed from it and must equal the logged one, and every  *)
(* "state" line must agree with it.  All invariants of Cacache are         *)
(* evaluated in every state reached.  The trace is accepted iff every line *)
(* was consumed (POSTCONDITION).                                           *)
(***************************************************************************)
EXTENDS Cacache, Json, IOUtils

Rec == ndJsonDeserialize(IOEnv.TRACE)
N   == Len(Rec)
Hdr == Rec[1]

TraceLenOf(id) == Hdr.lens[id]
TraceReflink   == Hdr.reflink
TraceBucketOf(k) == k              \* bucket files are named after the key that owns the path
Diag           == Hdr.diag          \* diagnostic mode: print mismatches and go on

VARIABLE l                          \* index of the next line to consume

tvars == <<vars, l>>

Ev == Rec[l]

Range(s) == { s[i] : i \in 1..Len(s) }

(* ---- result comparison --------------------------------------------------- *)

ListResAgrees(r, o) ==
    /\ o.ok
    /\ o.errs = r.errs
    /\ Len(o.v) = Cardinality(r.v)          \* once each
    /\ Range(o.v) = r.v

ResAgrees(op, r, o) == IF op.op = "list" THEN ListResAgrees(r, o) ELSE r = o

\* one line of JSON per mismatch (diagnostic mode); sets are printed as arrays
Report(what, a, b) == PrintT(<<"MISMATCH", ToJson([line |-> l, what |-> what, exp |-> a, obs |-> b])>>)

StoreAsSet(st)   == { [a |-> x.a, d |-> x.d, c |-> st[x]] : x \in DOMAIN st }
BucketsAsSet(bk) == { [key |-> k, lines |-> bk[k]] : k \in DOMAIN bk }
ExtAsSet(ex)     == { [id |-> x, b |-> ex[x]] : x \in DOMAIN ex }

(* ---- observed projection vs ghost ----------------------------------------- *)

ObsBuckets(e) == [k \in { e.buckets[i].key : i \in 1..Len(e.buckets) } |->
                    (e.buckets[CHOOSE i \in 1..Len(e.buckets) : e.buckets[i].key = k]).lines]
ObsStore(e)   == [a \in { [a |-> e.store[i].a, d |-> e.store[i].d] : i \in 1..Len(e.store) } |->
                    (e.store[CHOOSE i \in 1..Len(e.store) :
                                e.store[i].a = a.a /\ e.store[i].d = a.d]).c]
ObsExt(e)     == [x \in { e.ext[i].id : i \in 1..Len(e.ext) } |->
                    (e.ext[CHOOSE i \in 1..Len(e.ext) : e.ext[i].id = x]).b]

\* bucket files are compared by their effective records in order (raw shape only when
\* the header asks for exact comparison: that is C17's subject)
BucketsAgree(ob) ==
    /\ DOMAIN ob = DOMAIN buckets
    /\ \A k \in DOMAIN ob : Recs(ob[k]) = Recs(buckets[k])
    /\ Hdr.exact => ob = buckets

Agrees(e) ==
    /\ BucketsAgree(ObsBuckets(e))
    /\ ObsStore(e) = store
    /\ ObsExt(e) = ext
    /\ e.tmp = tmp
    /\ e.hasIndex = hasIndex

AgreesDiag(e) ==
    /\ (IF BucketsAgree(ObsBuckets(e)) THEN TRUE ELSE Report("buckets", BucketsAsSet(buckets), e.buckets))
    /\ (IF ObsStore(e) = store THEN TRUE ELSE Report("store", StoreAsSet(store), e.store))
    /\ (IF ObsExt(e) = ext THEN TRUE ELSE Report("ext", ExtAsSet(ext), e.ext))
    /\ (IF e.tmp = tmp THEN TRUE ELSE Report("tmp", tmp, e.tmp))
    /\ (IF e.hasIndex = hasIndex THEN TRUE ELSE Report("hasIndex", hasIndex, e.hasIndex))

(* ---- the trace specification ------------------------------------------------ *)

TInit == Init /\ l = 2

\* Totality mode (header total = TRUE) is used for programs that put the directory into
\* states outside the abstract model (a bucket path that is a directory, a file where a
\* directory should be): the only thing required of a call is that it returns - a value or
\* an error - i.e. its logged outcome is not a panic, a hang or a dead process (C20).
Returned(o) == IF o.ok THEN TRUE ELSE o.e \notin {"PANIC", "HANG", "DIED"}

TCall == /\ l <= N /\ Ev.ev = "call"
         /\ IF Hdr.total
            THEN Returned(Ev.res) /\ UNCHANGED vars
            ELSE /\ Do(Ev.op)
                 /\ IF Diag THEN (IF ResAgrees(Ev.op, res', Ev.res) THEN TRUE
                                  ELSE Report("result", res', Ev.res))
                    ELSE ResAgrees(Ev.op, res', Ev.res)
         /\ l' = l + 1

TEnv == /\ l <= N /\ Ev.ev = "env"
        /\ IF Hdr.total THEN UNCHANGED vars ELSE Do(Ev.op)
        /\ l' = l + 1

\* in diagnostic mode the ghost adopts the observed projection after reporting, so that the
\* following lines can still be examined and every divergence of a trace is reported
TState == /\ l <= N /\ Ev.ev = "state"
          /\ IF Hdr.total THEN UNCHANGED vars
             ELSE IF Diag
             THEN /\ AgreesDiag(Ev)
                  /\ buckets' = ObsBuckets(Ev) /\ store' = ObsStore(Ev) /\ ext' = ObsExt(Ev)
                  /\ tmp' = Ev.tmp /\ hasIndex' = Ev.hasIndex
                  /\ UNCHANGED <<hd, res>>
             ELSE Agrees(Ev) /\ UNCHANGED vars
          /\ l' = l + 1

TReset == /\ l <= N /\ Ev.ev = "reset"
          /\ buckets' = EmptyFn /\ store' = EmptyFn /\ ext' = EmptyFn /\ tmp' = 0
          /\ hasIndex' = FALSE /\ hd' = EmptyFn /\ res' = Ok("init")
          /\ l' = l + 1

\* the state a system-call level phase (validated separately by TraceFS.tla) left behind
TAdopt == /\ l <= N /\ Ev.ev = "adopt"
          /\ buckets' = ObsBuckets(Ev) /\ store' = ObsStore(Ev) /\ ext' = ObsExt(Ev)
          /\ tmp' = Ev.tmp /\ hasIndex' = Ev.hasIndex
          /\ UNCHANGED <<hd, res>>
          /\ l' = l + 1

\* a line the diagnostic driver has marked as already reported
TSkip == /\ l <= N /\ Ev.ev = "skip"
         /\ UNCHANGED vars
         /\ l' = l + 1

TNext == TCall \/ TEnv \/ TState \/ TReset \/ TSkip \/ TAdopt

TSpec == TInit /\ [][TNext]_tvars

\* accepted iff all N lines were consumed: one state per line from line 2, plus the initial one
Accepted ==
    LET d == TLCGet("stats").diameter IN
    IF d = N THEN PrintT(<<"ACCEPTED", N>>)
    ELSE PrintT(<<"REJECTED", d + 1, N>>) /\ FALSE

(* ---- invariants evaluated in every state of every validated trace -------------- *)

TmpOK  == TmpAccounted
ListOK == ListAgrees
=============================================================================
