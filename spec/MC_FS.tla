------------------------------- MODULE MC_FS -------------------------------
EXTENDS CacacheFS

\* operation instances over two keys and two data values
MCOpsAll ==
    { [op |-> "write", k |-> k, d |-> d] : k \in Keys, d \in Datas }
    \cup { [op |-> "write_hash", d |-> d] : d \in Datas }
    \cup { [op |-> "read", k |-> k] : k \in Keys }
    \cup { [op |-> "read_hash", d |-> d] : d \in Datas }
    \cup { [op |-> "metadata", k |-> k] : k \in Keys }
    \cup { [op |-> "remove", k |-> k] : k \in Keys }
    \cup { [op |-> "remove_hash", d |-> d] : d \in Datas }
    \cup { [op |-> "exists", d |-> d] : d \in Datas }
    \cup { [op |-> "list"] }
\* ... plus entries whose content is a symbolic link (feature link_to)
MCOpsLink == MCOpsAll \cup { [op |-> "link_to", k |-> k, d |-> d] : k \in Keys, d \in Datas }
MCOpsLinkNoRH == { o \in MCOpsLink : o.op # "remove_hash" }
MCOpsNoRH == { o \in MCOpsAll : o.op # "remove_hash" }
MCOpsWrite == { o \in MCOpsAll : o.op \in {"write", "write_hash", "remove", "read", "metadata"} }

MCIsEmpty(d) == FALSE

view == <<cf, tmpf, bex, bk, pc, op, res, seen, fdc, acc, todo, crashed, nfaults, nstarts, log>>
=============================================================================
