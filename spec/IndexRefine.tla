--------------------------- MODULE IndexRefine ---------------------------
(* Unbounded (TLAPS-checked) core of C05 / C06 / C09 / C10: the append-only bucket log refines a  *)
(* plain map for EVERY length of history, and invalidating one record (damage, C06) can only      *)
(* change the lookup of that record's own key.  The model checker decides the same statements for *)
(* the token-level IndexFormat module within small bounds; this module removes the bound on the   *)
(* length of the log and on the number of keys for the abstract statement.                        *)
EXTENDS Naturals, Sequences

CONSTANTS Key, Val, None
ASSUME NoneNotVal == None \notin Val

Slot == Val \cup {None}                      \* None as a record value = tombstone (integrity null)
Rec  == [key : Key, val : Slot, ok : BOOLEAN] \* ok = FALSE: the line no longer parses / checksum fails

VARIABLES log, map

Idx(l, k)       == {i \in 1..Len(l) : l[i].key = k /\ l[i].ok}
IsLast(l, k, i) == i \in Idx(l, k) /\ \A j \in Idx(l, k) : j <= i
(* "lookup of k in l yields s": the last intact record of k decides, none = absent.               *)
Yields(l, k, s) == \/ Idx(l, k) = {} /\ s = None
                   \/ \E i \in 1..Len(l) : IsLast(l, k, i) /\ l[i].val = s

Init   == log = <<>> /\ map = [k \in Key |-> None]
Put(k, v) == /\ log' = Append(log, [key |-> k, val |-> v, ok |-> TRUE])
             /\ map' = [map EXCEPT ![k] = v]
Del(k)    == /\ log' = Append(log, [key |-> k, val |-> None, ok |-> TRUE])
             /\ map' = [map EXCEPT ![k] = None]
(* a torn or garbage line: parses as nothing, whatever key it was meant for                        *)
Junk(k, s) == /\ log' = Append(log, [key |-> k, val |-> s, ok |-> FALSE])
              /\ UNCHANGED map
Next == \E k \in Key : (\E v \in Val : Put(k, v)) \/ Del(k) \/ (\E s \in Slot : Junk(k, s))

TypeOK == log \in Seq(Rec) /\ map \in [Key -> Slot]
Refines == \A k \in Key : Yields(log, k, map[k])
Inv == TypeOK /\ Refines

(* Damage of record d of a log l: the same log with that record invalid.                           *)
Damaged(l, d) == [l EXCEPT ![d].ok = FALSE]

THEOREM InitInv == Init => Inv
  <1> SUFFICES ASSUME Init PROVE Inv OBVIOUS
  <1>1. TypeOK BY DEF Init, TypeOK, Slot
  <1>2. \A k \in Key : Idx(log, k) = {} BY DEF Init, Idx
  <1> QED BY <1>1, <1>2 DEF Inv, Refines, Yields, Init

LEMMA AppendFacts ==
  ASSUME NEW l \in Seq(Rec), NEW r \in Rec
  PROVE  /\ Append(l, r) \in Seq(Rec)
         /\ Len(Append(l, r)) = Len(l) + 1
         /\ \A i \in 1..Len(l) : Append(l, r)[i] = l[i]
         /\ Append(l, r)[Len(l) + 1] = r
  OBVIOUS

LEMMA AppendOk ==
  ASSUME NEW l \in Seq(Rec), NEW r \in Rec, r.ok = TRUE, NEW k \in Key, NEW s \in Slot,
         Yields(l, k, s)
  PROVE  Yields(Append(l, r), k, IF r.key = k THEN r.val ELSE s)
  <1> DEFINE l2 == Append(l, r)
  <1>0. /\ l2 \in Seq(Rec) /\ Len(l2) = Len(l) + 1
        /\ \A i \in 1..Len(l) : l2[i] = l[i]
        /\ l2[Len(l) + 1] = r
        BY AppendFacts
  <1>n. Len(l) \in Nat OBVIOUS
  <1>1. CASE r.key = k
    <2>1. Len(l) + 1 \in 1..Len(l2) BY <1>0, <1>n
    <2>2. IsLast(l2, k, Len(l) + 1) BY <1>0, <1>1, <1>n, <2>1 DEF IsLast, Idx
    <2> QED BY <1>0, <1>1, <2>1, <2>2 DEF Yields
  <1>2. CASE r.key # k
    <2>1. Idx(l2, k) = Idx(l, k) BY <1>0, <1>2, <1>n DEF Idx
    <2>2. \A i \in 1..Len(l) : IsLast(l, k, i) => IsLast(l2, k, i) /\ l2[i].val = l[i].val
          BY <1>0, <2>1 DEF IsLast
    <2>3. \A i \in 1..Len(l) : i \in 1..Len(l2) BY <1>0, <1>n
    <2> QED BY <1>2, <2>1, <2>2, <2>3 DEF Yields
  <1> QED BY <1>1, <1>2

LEMMA AppendJunk ==
  ASSUME NEW l \in Seq(Rec), NEW r \in Rec, r.ok = FALSE, NEW k \in Key, NEW s \in Slot,
         Yields(l, k, s)
  PROVE  Yields(Append(l, r), k, s)
  <1> DEFINE l2 == Append(l, r)
  <1>0. /\ l2 \in Seq(Rec) /\ Len(l2) = Len(l) + 1
        /\ \A i \in 1..Len(l) : l2[i] = l[i]
        /\ l2[Len(l) + 1] = r
        BY AppendFacts
  <1>n. Len(l) \in Nat OBVIOUS
  <1>1. Idx(l2, k) = Idx(l, k) BY <1>0, <1>n DEF Idx
  <1>2. \A i \in 1..Len(l) : IsLast(l, k, i) => IsLast(l2, k, i) /\ l2[i].val = l[i].val
        BY <1>0, <1>1 DEF IsLast
  <1>3. \A i \in 1..Len(l) : i \in 1..Len(l2) BY <1>0, <1>n
  <1> QED BY <1>1, <1>2, <1>3 DEF Yields

THEOREM NextInv == Inv /\ [Next]_<<log, map>> => Inv'
  <1> SUFFICES ASSUME Inv, [Next]_<<log, map>> PROVE Inv' OBVIOUS
  <1> USE DEF Inv, TypeOK
  <1>1. CASE UNCHANGED <<log, map>> BY <1>1 DEF Refines
  <1>2. ASSUME NEW k \in Key, NEW v \in Val, Put(k, v) PROVE Inv'
    <2> DEFINE r == [key |-> k, val |-> v, ok |-> TRUE]
    <2>1. r \in Rec /\ r.ok = TRUE /\ r.key = k /\ r.val = v BY DEF Rec, Slot
    <2>2. log' = Append(log, r) /\ map' = [map EXCEPT ![k] = v] BY <1>2 DEF Put
    <2>3. TypeOK' BY <2>1, <2>2, AppendFacts DEF Slot
    <2>4. ASSUME NEW q \in Key PROVE Yields(log', q, map'[q])
      <3>1. Yields(log, q, map[q]) /\ map[q] \in Slot BY DEF Refines
      <3>2. Yields(Append(log, r), q, IF r.key = q THEN r.val ELSE map[q]) BY <2>1, <3>1, AppendOk
      <3>3. map'[q] = IF r.key = q THEN r.val ELSE map[q] BY <2>1, <2>2
      <3> QED BY <2>2, <3>2, <3>3
    <2> QED BY <2>3, <2>4 DEF Refines
  <1>3. ASSUME NEW k \in Key, Del(k) PROVE Inv'
    <2> DEFINE r == [key |-> k, val |-> None, ok |-> TRUE]
    <2>1. r \in Rec /\ r.ok = TRUE /\ r.key = k /\ r.val = None BY DEF Rec, Slot
    <2>2. log' = Append(log, r) /\ map' = [map EXCEPT ![k] = None] BY <1>3 DEF Del
    <2>3. TypeOK' BY <2>1, <2>2, AppendFacts DEF Slot
    <2>4. ASSUME NEW q \in Key PROVE Yields(log', q, map'[q])
      <3>1. Yields(log, q, map[q]) /\ map[q] \in Slot BY DEF Refines
      <3>2. Yields(Append(log, r), q, IF r.key = q THEN r.val ELSE map[q]) BY <2>1, <3>1, AppendOk
      <3>3. map'[q] = IF r.key = q THEN r.val ELSE map[q] BY <2>1, <2>2
      <3> QED BY <2>2, <3>2, <3>3
    <2> QED BY <2>3, <2>4 DEF Refines
  <1>4. ASSUME NEW k \in Key, NEW s \in Slot, Junk(k, s) PROVE Inv'
    <2> DEFINE r == [key |-> k, val |-> s, ok |-> FALSE]
    <2>1. r \in Rec /\ r.ok = FALSE BY DEF Rec
    <2>2. log' = Append(log, r) /\ map' = map BY <1>4 DEF Junk
    <2>3. TypeOK' BY <2>1, <2>2, AppendFacts
    <2>4. ASSUME NEW q \in Key PROVE Yields(log', q, map'[q])
      <3>1. Yields(log, q, map[q]) /\ map[q] \in Slot BY DEF Refines
      <3>2. Yields(Append(log, r), q, map[q]) BY <2>1, <3>1, AppendJunk
      <3> QED BY <2>2, <3>2
    <2> QED BY <2>3, <2>4 DEF Refines
  <1> QED BY <1>1, <1>2, <1>3, <1>4 DEF Next

(* C06 / C09 frame: invalidating record d changes no other key's lookup.                           *)
THEOREM DamageContained ==
  ASSUME NEW l \in Seq(Rec), NEW d \in 1..Len(l), NEW k \in Key, l[d].key # k, NEW s \in Slot,
         Yields(l, k, s)
  PROVE  Yields(Damaged(l, d), k, s)
  <1> DEFINE l2 == Damaged(l, d)
  <1>0. /\ Len(l2) = Len(l)
        /\ \A i \in 1..Len(l) : i # d => l2[i] = l[i]
        /\ l2[d].key = l[d].key
        BY DEF Damaged, Rec
  <1>1. Idx(l2, k) = Idx(l, k) BY <1>0 DEF Idx
  <1>2. \A i \in 1..Len(l) : IsLast(l, k, i) => IsLast(l2, k, i) /\ l2[i].val = l[i].val
        BY <1>0, <1>1 DEF IsLast, Idx
  <1> QED BY <1>0, <1>1, <1>2 DEF Yields

(* A lookup is a function of the log: two answers for one key agree (so "Yields" determines the    *)
(* result the library must return).                                                                *)
THEOREM YieldsUnique ==
  ASSUME NEW l \in Seq(Rec), NEW k \in Key, NEW s, NEW t, Yields(l, k, s), Yields(l, k, t)
  PROVE  s = t
  <1>1. \A i, j \in 1..Len(l) : IsLast(l, k, i) /\ IsLast(l, k, j) => i = j
        BY DEF IsLast, Idx
  <1>2. \A i \in 1..Len(l) : IsLast(l, k, i) => Idx(l, k) # {} BY DEF IsLast
  <1> QED BY <1>1, <1>2 DEF Yields
=============================================================================
