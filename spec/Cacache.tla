----------------------------- MODULE Cacache -----------------------------
(***************************************************************************)
(* The API contract of cacache: one action per public call.                *)
(*                                                                         *)
(* State = what is on disk (index buckets, content files, external files   *)
(* that extraction calls write and link_to reads, private temp files) plus *)
(* the open streaming handles.  Every action fixes the call's RESULT as a  *)
(* function of the pre-state: the contract is deterministic except for the *)
(* default timestamp (any clock value inside the call) and listing order.  *)
(*                                                                         *)
(* The module is used three ways:                                          *)
(*  - MC_Core*.tla: exhaustive model checking of the properties for small  *)
(*    constants (Next == \E op \in OpSet : Do(op));                        *)
(*  - TraceAPI.tla: validation of traces recorded from the real library    *)
(*    (Do(op) for the logged op, res' compared with the logged result,     *)
(*    the observed directory projection compared with the state);          *)
(*  - behaviours exported from the MC runs are replayed into the library.  *)
(*                                                                         *)
(* Abstractions.  Byte strings are opaque ids; LenOf gives their length.   *)
(* A digest is injective and algorithm tagged: the hash of bytes d under   *)
(* algorithm a is the record [a |-> a, d |-> d].  An integrity value is a  *)
(* sequence of hashes in ssri's order (strongest algorithm first).         *)
(* "Option" values are sequences of length 0 or 1.                         *)
(***************************************************************************)
EXTENDS Naturals, Sequences, FiniteSets, TLC

CONSTANTS LenOf(_),     \* byte length of the byte string an id denotes
          BucketOf(_),  \* key -> bucket file (hex SHA-1 of the key; injective unless SHA-1 collides)
          ReflinkOK     \* TRUE iff the file system supports FICLONE (ext4 here: FALSE)

VARIABLES buckets,      \* bucket id -> Seq(Line); domain = bucket files that exist
          store,        \* address [a,d] -> [k |-> "file", b |-> bytes] | [k |-> "link", to |-> ext id]
          ext,          \* external path id -> bytes id; domain = files that exist
          tmp,          \* number of files in tmp/
          hasIndex,     \* does index-v5/ exist
          hd,           \* open handles: id -> record (writers, readers, linkers)
          res           \* result of the last call

vars == <<buckets, store, ext, tmp, hasIndex, hd, res>>
disk == <<buckets, store, ext, tmp, hasIndex>>

(* ---- small helpers ---------------------------------------------------- *)

Upd(f, k, v) == [x \in (DOMAIN f) \cup {k} |-> IF x = k THEN v ELSE f[x]]
Del(f, k)    == [x \in (DOMAIN f) \ {k} |-> f[x]]
EmptyFn      == [x \in {} |-> 0]
Reverse(s)   == [i \in 1..Len(s) |-> s[Len(s) + 1 - i]]
Has(r, f)    == f \in DOMAIN r

Ok(v)          == [ok |-> TRUE, v |-> v]
Err(e)         == [ok |-> FALSE, e |-> e]
ErrSize(w, a)  == [ok |-> FALSE, e |-> "SizeMismatch", wanted |-> w, actual |-> a]

RecLine(e) == [t |-> "rec", r |-> e]
EmptyLine  == [t |-> "empty"]

DeadBeef == <<[a |-> "sha1", d |-> "deadbeef"]>>

(* ---- index: parser image, lookup, listing ------------------------------- *)

\* effective records of a bucket, in file order (invalid lines are skipped on their own)
Recs(ls) == LET v == SelectSeq(ls, LAMBDA l : l.t = "rec")
            IN  [i \in 1..Len(v) |-> v[i].r]

RECURSIVE FoldK(_, _, _)
FoldK(rs, k, acc) == IF rs = <<>> THEN acc
                     ELSE LET r == Head(rs) IN
                          FoldK(Tail(rs), k,
                                IF r.key = k THEN (IF r.sri = <<>> THEN <<>> ELSE <<r>>)
                                ELSE acc)

LookupIn(ls, k) == FoldK(Recs(ls), k, <<>>)
LookupB(bk, k)  == IF BucketOf(k) \in DOMAIN bk THEN LookupIn(bk[BucketOf(k)], k) ELSE <<>>
Lookup(k)       == LookupB(buckets, k)

RECURSIVE DedupK(_, _)
DedupK(rs, seen) == IF rs = <<>> THEN {}
                    ELSE LET r == Head(rs) IN
                         IF r.key \in seen THEN DedupK(Tail(rs), seen)
                         ELSE (IF r.sri = <<>> THEN {} ELSE {r})
                              \cup DedupK(Tail(rs), seen \cup {r.key})

ListingOf(ls) == DedupK(Reverse(Recs(ls)), {})
ListAllB(bk)  == UNION { ListingOf(bk[b]) : b \in DOMAIN bk }
ListAll       == ListAllB(buckets)

\* O_APPEND of one record: a fresh file starts with the record's own leading newline
AppendTo(bk, k, e) == LET b == BucketOf(k) IN
                      IF b \in DOMAIN bk THEN Upd(bk, b, Append(bk[b], RecLine(e)))
                      ELSE Upd(bk, b, <<EmptyLine, RecLine(e)>>)

\* (the size of an index entry is carried as its decimal text: any 64-bit value, while TLC's
\* integers are 32-bit; sizes that are computed with - byte counts - are integers)
Tombstone(k, t) == [key |-> k, sri |-> <<>>, time |-> t, size |-> "0",
                    meta |-> "null", raw |-> "none"]

(* ---- content ------------------------------------------------------------- *)

Addr(sri)   == sri[1]                 \* content path = first (strongest) hash
Present(a)  == a \in DOMAIN store
FileC(b)    == [k |-> "file", b |-> b]
LinkC(t)    == [k |-> "link", to |-> t]

\* what a reader that opens the content path gets (a symlink is followed)
BytesIn(st, ex, a) == IF a \notin DOMAIN st THEN "ABSENT"
                      ELSE IF st[a].k = "file" THEN st[a].b
                      ELSE IF st[a].to \in DOMAIN ex THEN ex[st[a].to] ELSE "ABSENT"
BytesAt(a) == BytesIn(store, ext, a)

\* ssri IntegrityChecker: hash with the strongest algorithm of the wanted value and accept
\* if one of the wanted hashes of that algorithm equals it
Verify(sri, b) == \E i \in 1..Len(sri) : sri[i].a = sri[1].a /\ sri[i].d = b

\* ssri Integrity::matches(declared, computed): decided by the computed value's algorithm
Matches(decl, h) == \E i \in 1..Len(decl) : decl[i] = h

ReadRes(sri) == LET b == BytesAt(Addr(sri)) IN
                IF b = "ABSENT" THEN Err("IoNotFound")
                ELSE IF Verify(sri, b) THEN Ok(b) ELSE Err("Integrity")

\* by-key entry points resolve the key first; by-address ones carry the integrity
SriFor(op) == IF Has(op, "key")
              THEN (LET e == Lookup(op.key) IN IF e = <<>> THEN <<>> ELSE <<e[1].sri>>)
              ELSE <<op.sri>>

(* ---- retrieval ------------------------------------------------------------- *)

Read(op) ==
    /\ res' = (LET t == SriFor(op) IN IF t = <<>> THEN Err("EntryNotFound") ELSE ReadRes(t[1]))
    /\ UNCHANGED <<disk, hd>>

Metadata(op) ==
    /\ res' = Ok(Lookup(op.key))
    /\ UNCHANGED <<disk, hd>>

Exists(op) ==
    /\ res' = Ok(BytesAt(Addr(op.sri)) # "ABSENT")
    /\ UNCHANGED <<disk, hd>>

\* list_sync: one error item when index-v5/ does not exist (pinned by the repository's tests)
ListRes == IF hasIndex THEN [ok |-> TRUE, v |-> ListAll, errs |-> 0]
           ELSE [ok |-> TRUE, v |-> {}, errs |-> 1]
List(op) ==
    /\ res' = ListRes
    /\ UNCHANGED <<disk, hd>>

\* copy / hard_link / reflink, by key or address, checked or unchecked
Extract(op) ==
    LET t == SriFor(op) IN
    IF t = <<>> THEN res' = Err("EntryNotFound") /\ UNCHANGED <<disk, hd>>
    ELSE LET sri == t[1]
             b   == BytesAt(Addr(sri)) IN
         IF b = "ABSENT" /\ op.kind = "hard_link" /\ ~op.checked
            /\ Present(Addr(sri)) /\ store[Addr(sri)].k = "link"
         THEN \* link(2) does not follow a symlink: the unchecked hard link of a linked entry whose
              \* target is gone succeeds and leaves an equally dangling link at the destination
              IF op.to \in DOMAIN ext THEN res' = Err("IoExists") /\ UNCHANGED <<disk, hd>>
              ELSE /\ ext' = Upd(ext, op.to, "UNREADABLE") /\ res' = Ok("unit")
                   /\ UNCHANGED <<buckets, store, tmp, hasIndex, hd>>
         ELSE IF b = "ABSENT"
         THEN \* (reflink-copy reports a source that is not an existing regular file as InvalidInput;
              \* only the unchecked reflink gets that far, the checked ones fail on opening it)
              /\ res' = IF op.kind = "reflink" /\ ~op.checked THEN Err("IoOther") ELSE Err("IoNotFound")
              /\ UNCHANGED <<disk, hd>>
         ELSE IF op.checked /\ ~Verify(sri, b)
              THEN res' = Err("Integrity") /\ UNCHANGED <<disk, hd>>     \* nothing left behind
         ELSE IF op.kind = "copy"
              THEN /\ ext' = Upd(ext, op.to, b)                          \* copy overwrites
                   /\ res' = Ok(LenOf(b))
                   /\ UNCHANGED <<buckets, store, tmp, hasIndex, hd>>
         ELSE IF op.to \in DOMAIN ext
              THEN \* links refuse an existing destination; reflink-copy rewrites every error as
                   \* InvalidInput when the source path itself is not a regular file (a symlink)
                   /\ res' = IF op.kind = "reflink" /\ store[Addr(sri)].k = "link"
                             THEN Err("IoOther") ELSE Err("IoExists")
                   /\ UNCHANGED <<disk, hd>>
         ELSE IF op.kind = "reflink" /\ ~ReflinkOK
              THEN res' = Err("IoOther") /\ UNCHANGED <<disk, hd>>
         ELSE /\ ext' = Upd(ext, op.to, b)
              /\ res' = Ok("unit")
              /\ UNCHANGED <<buckets, store, tmp, hasIndex, hd>>

(* ---- reader handles --------------------------------------------------------- *)

OpenReader(op) ==
    LET t == SriFor(op) IN
    IF t = <<>> THEN res' = Err("EntryNotFound") /\ UNCHANGED <<disk, hd>>
    ELSE LET b == BytesAt(Addr(t[1])) IN
         IF b = "ABSENT" THEN res' = Err("IoNotFound") /\ UNCHANGED <<disk, hd>>
         ELSE /\ hd' = Upd(hd, op.h, [kind |-> "reader", sri |-> t[1], snap |-> b, pos |-> 0])
              /\ res' = Ok("handle")
              /\ UNCHANGED disk

\* one read() with a buffer of op.n bytes; op.slice_ok is the byte-level fact that the
\* bytes delivered are snap[pos .. pos+count)
ReadSome(op) ==
    /\ Has(hd, op.h) /\ hd[op.h].kind = "reader"
    /\ LET r   == hd[op.h]
           rem == LenOf(r.snap) - r.pos
           cnt == IF op.n < rem THEN op.n ELSE rem IN
       /\ op.slice_ok
       /\ hd' = [hd EXCEPT ![op.h].pos = r.pos + cnt]
       /\ res' = Ok(cnt)
    /\ UNCHANGED disk

\* check(): the digest of exactly what was delivered must be one of the wanted hashes.
\* op.delivered is the id of the concatenation of everything the handle handed out.
Check(op) ==
    /\ Has(hd, op.h) /\ hd[op.h].kind = "reader"
    /\ LET r == hd[op.h] IN
       /\ (r.pos = LenOf(r.snap)) => op.delivered = r.snap
       /\ LenOf(op.delivered) = r.pos
       /\ res' = IF Verify(r.sri, op.delivered) THEN Ok(r.sri[1].a) ELSE Err("Integrity")
    /\ hd' = Del(hd, op.h)
    /\ UNCHANGED disk

(* ---- writing ----------------------------------------------------------------- *)

\* opts: [size |-> Option(Nat), sri |-> integrity or <<>>, time, meta, raw] with
\* "DEFAULT" meaning not supplied.  op.now is the clock value the call observed.
TimeOf(o, op)  == IF o.time = "DEFAULT" THEN op.now ELSE o.time
MetaOf(o)      == IF o.meta = "DEFAULT" THEN "null" ELSE o.meta
RawOf(o)       == IF o.raw = "DEFAULT" THEN "none" ELSE o.raw
NowOk(o, op)   == (o.time = "DEFAULT") => op.now_ok

NoOpts == [size |-> <<>>, sri |-> <<>>, time |-> "DEFAULT", meta |-> "DEFAULT", raw |-> "DEFAULT"]

\* The commit sequence shared by every write path:
\*   publish content ; check declared integrity ; check declared size ; insert index record
\* keyopt: Option(key); d: the data; n: bytes written; o: opts
\* A record the index readers could not parse back is refused by the insertion (the byte-level
\* fact - metadata nested deeper than the JSON reader's recursion limit - is supplied with the
\* options as storable = FALSE): the index directories exist afterwards, nothing is appended.
Storable(o) == IF "storable" \in DOMAIN o THEN o.storable ELSE TRUE

CommitEffect(op, keyopt, algo, d, n, o, pubStore) ==
    LET addr == [a |-> algo, d |-> d]
        sriC == <<addr>> IN
    /\ store' = pubStore
    /\ IF o.sri # <<>> /\ ~Matches(o.sri, addr)
       THEN res' = Err("Integrity") /\ UNCHANGED <<buckets, hasIndex>>
       ELSE IF o.size # <<>> /\ o.size[1] # n
       THEN res' = ErrSize(o.size[1], n) /\ UNCHANGED <<buckets, hasIndex>>
       \* a declared size beyond TLC's integers travels as decimal text only (o.sizes, o.size
       \* empty): no data of this model is that long, the commit is rejected (wanted reported as -1)
       ELSE IF o.size = <<>> /\ "sizes" \in DOMAIN o /\ o.sizes # "DEFAULT"
       THEN res' = ErrSize(0 - 1, n) /\ UNCHANGED <<buckets, hasIndex>>
       ELSE IF keyopt = <<>>
       THEN res' = Ok(sriC) /\ UNCHANGED <<buckets, hasIndex>>
       ELSE IF ~Storable(o)
       THEN res' = Err("Serde") /\ hasIndex' = TRUE /\ UNCHANGED buckets
       ELSE LET e == [key  |-> keyopt[1],
                      sri  |-> IF o.sri # <<>> THEN o.sri ELSE sriC,
                      time |-> TimeOf(o, op),
                      size |-> ToString(IF o.size # <<>> THEN o.size[1] ELSE n),
                      meta |-> MetaOf(o),
                      raw  |-> RawOf(o)] IN
            /\ NowOk(o, op)
            /\ buckets' = AppendTo(buckets, keyopt[1], e)
            /\ hasIndex' = TRUE
            /\ res' = Ok(e.sri)

\* the verdict alone (same order of checks as CommitEffect), for a commit whose effects land in
\* ANOTHER directory: a writer opened through a relative cache path and committed after the
\* process changed its working directory - the path is resolved when it is used, so content and
\* index record both go to the cache that path names THEN, and this cache is left alone
CommitRes(keyopt, algo, d, n, o) ==
    LET addr == [a |-> algo, d |-> d] IN
    IF o.sri # <<>> /\ ~Matches(o.sri, addr) THEN Err("Integrity")
    ELSE IF o.size # <<>> /\ o.size[1] # n THEN ErrSize(o.size[1], n)
    ELSE IF o.size = <<>> /\ "sizes" \in DOMAIN o /\ o.sizes # "DEFAULT" THEN ErrSize(0 - 1, n)
    ELSE IF keyopt = <<>> THEN Ok(<<addr>>)
    ELSE IF ~Storable(o) THEN Err("Serde")
    ELSE Ok(IF o.sri # <<>> THEN o.sri ELSE <<addr>>)

KeyOpt(op) == IF Has(op, "key") THEN <<op.key>> ELSE <<>>

\* write / write_sync / write_with_algo / write_hash* : the whole sequence in one call
WriteOneShot(op) ==
    \* (a whole write recorded as ONE operation - system-call level histories - may carry the
    \* metadata its writer was given)
    /\ CommitEffect(op, KeyOpt(op), op.algo, op.data, LenOf(op.data),
                    IF Has(op, "meta") THEN [NoOpts EXCEPT !.meta = op.meta] ELSE NoOpts,
                    Upd(store, [a |-> op.algo, d |-> op.data], FileC(op.data)))
    /\ UNCHANGED <<ext, tmp, hd>>

OpenWriter(op) ==
    /\ ~Has(hd, op.h)
    /\ hd' = Upd(hd, op.h, [kind |-> "writer", key |-> KeyOpt(op), algo |-> op.algo,
                            opts |-> op.opts, n |-> 0, closed |-> FALSE, gone |-> FALSE,
                            plan |-> op.plan])
    /\ tmp' = tmp + 1
    /\ res' = Ok("handle")
    /\ UNCHANGED <<buckets, store, ext, hasIndex>>

WriteChunk(op) ==
    /\ Has(hd, op.h) /\ hd[op.h].kind = "writer"
    /\ IF hd[op.h].closed /\ (op.len > 0 \/ ~op.all)
       THEN res' = Err("IoOther") /\ UNCHANGED hd       \* "file closed"
            \* (write_all of an empty buffer never reaches the writer: Ok even when closed)
       ELSE /\ hd' = [hd EXCEPT ![op.h].n = @ + op.len]
            /\ res' = Ok(op.len)
    /\ UNCHANGED disk

\* AsyncWrite close()/shutdown() without commit: the temp file is discarded
CloseWriter(op) ==
    /\ Has(hd, op.h) /\ hd[op.h].kind = "writer"
    /\ hd' = [hd EXCEPT ![op.h].closed = TRUE]
    /\ tmp' = IF hd[op.h].closed \/ hd[op.h].gone THEN tmp ELSE tmp - 1
    /\ res' = Ok("unit")
    /\ UNCHANGED <<buckets, store, ext, hasIndex>>

FlushWriter(op) ==
    /\ Has(hd, op.h) /\ hd[op.h].kind = "writer"
    /\ res' = Ok("unit")
    /\ UNCHANGED <<disk, hd>>

\* op.fed is the id of the concatenation of all chunks accepted by the handle
Commit(op) ==
    /\ Has(hd, op.h) /\ hd[op.h].kind = "writer"
    /\ LET w == hd[op.h]
           addr == [a |-> w.algo, d |-> op.fed] IN
       /\ hd' = Del(hd, op.h)
       /\ IF w.closed
          THEN res' = Err("IoOther") /\ UNCHANGED disk
          ELSE IF Has(op, "elsewhere") /\ ~w.gone
          THEN /\ LenOf(op.fed) = w.n
               /\ res' = CommitRes(w.key, w.algo, op.fed, w.n, w.opts)
               /\ tmp' = tmp - 1                 \* its temp file (an absolute path) is renamed away
               /\ UNCHANGED <<buckets, store, ext, hasIndex>>
          ELSE IF w.gone
          THEN \* the temp file was swept away (clear): persisting fails; accepted only if the
               \* destination already exists
               IF BytesAt(addr) = "ABSENT"
               THEN res' = Err("IoNotFound") /\ UNCHANGED disk
               ELSE /\ LenOf(op.fed) = w.n
                    /\ CommitEffect(op, w.key, w.algo, op.fed, w.n, w.opts, store)
                    /\ UNCHANGED <<ext, tmp>>
          ELSE /\ LenOf(op.fed) = w.n
               /\ CommitEffect(op, w.key, w.algo, op.fed, w.n, w.opts,
                               Upd(store, addr, FileC(op.fed)))
               /\ tmp' = tmp - 1
               /\ UNCHANGED ext

\* dropping any handle; a writer's temp file goes with it
DropHandle(op) ==
    /\ Has(hd, op.h)
    /\ hd' = Del(hd, op.h)
    /\ tmp' = IF hd[op.h].kind = "writer" /\ ~hd[op.h].closed /\ ~hd[op.h].gone
              THEN tmp - 1 ELSE tmp
    /\ res' = Ok("unit")
    /\ UNCHANGED <<buckets, store, ext, hasIndex>>

(* ---- raw index access --------------------------------------------------------- *)

IndexInsert(op) ==
    LET o == op.opts
        e == [key |-> op.key, sri |-> o.sri, time |-> TimeOf(o, op),
              size |-> IF o.sizes # "DEFAULT" THEN o.sizes ELSE "0",   \* raw insert: verbatim
              meta |-> MetaOf(o), raw |-> RawOf(o)] IN
    /\ IF ~Storable(o)
       THEN res' = Err("Serde") /\ hasIndex' = TRUE /\ UNCHANGED buckets
       ELSE /\ NowOk(o, op)
            /\ buckets' = AppendTo(buckets, op.key, e)
            /\ hasIndex' = TRUE
            /\ res' = Ok(IF o.sri # <<>> THEN o.sri ELSE DeadBeef)
    /\ UNCHANGED <<store, ext, tmp, hd>>

(* ---- removal ------------------------------------------------------------------- *)

Remove(op) ==
    /\ op.now_ok
    /\ buckets' = AppendTo(buckets, op.key, Tombstone(op.key, op.now))
    /\ hasIndex' = TRUE
    /\ res' = Ok("unit")
    /\ UNCHANGED <<store, ext, tmp, hd>>

RemoveHash(op) ==
    LET a == Addr(op.sri) IN
    IF Present(a)
    THEN /\ store' = Del(store, a)
         /\ res' = Ok("unit")
         /\ UNCHANGED <<buckets, ext, tmp, hasIndex, hd>>
    ELSE res' = Err("IoNotFound") /\ UNCHANGED <<disk, hd>>

\* RemoveOpts::remove_fully: unlink the entry's content, then the whole bucket file
RemoveFully(op) ==
    LET e == Lookup(op.key) IN
    IF e # <<>> /\ ~Present(Addr(e[1].sri))
    THEN res' = Err("IoNotFound") /\ UNCHANGED <<disk, hd>>
    ELSE /\ store' = IF e # <<>> THEN Del(store, Addr(e[1].sri)) ELSE store
         /\ IF BucketOf(op.key) \in DOMAIN buckets
            THEN buckets' = Del(buckets, BucketOf(op.key)) /\ res' = Ok("unit")
            ELSE UNCHANGED buckets /\ res' = Err("IoNotFound")
         /\ UNCHANGED <<ext, tmp, hasIndex, hd>>

Clear(op) ==
    /\ buckets' = EmptyFn
    /\ store' = EmptyFn
    /\ tmp' = 0
    /\ hasIndex' = FALSE
    /\ hd' = [h \in DOMAIN hd |->
                IF hd[h].kind = "writer" /\ ~hd[h].closed THEN [hd[h] EXCEPT !.gone = TRUE]
                ELSE hd[h]]
    /\ res' = Ok("unit")
    /\ UNCHANGED ext

(* ---- link_to --------------------------------------------------------------------- *)

\* the symlink is created only if nothing is at the address; an existing readable file or
\* link is kept; a dangling link in the way is an error
LinkStore(addr, target) ==
    IF ~Present(addr) THEN Upd(store, addr, LinkC(target)) ELSE store
LinkBlocked(addr) == Present(addr) /\ BytesAt(addr) = "ABSENT"

LinkOneShot(op) ==
    IF op.target \notin DOMAIN ext THEN res' = Err("IoNotFound") /\ UNCHANGED <<disk, hd>>
    ELSE LET d == ext[op.target]
             addr == [a |-> "sha256", d |-> d]
             o == [NoOpts EXCEPT !.size = <<LenOf(d)>>] IN
         IF LinkBlocked(addr) THEN res' = Err("IoExists") /\ UNCHANGED <<disk, hd>>
         ELSE /\ CommitEffect(op, KeyOpt(op), "sha256", d, LenOf(d), o, LinkStore(addr, op.target))
              /\ UNCHANGED <<ext, tmp, hd>>

\* WriteOpts::link_to* / ToLinker::open*: op.opts as for writers; ToLinker::open declares
\* the size found at open time (the driver passes it in opts)
OpenLinker(op) ==
    IF op.target \notin DOMAIN ext THEN res' = Err("IoNotFound") /\ UNCHANGED <<disk, hd>>
    ELSE /\ ~Has(hd, op.h)
         /\ hd' = Upd(hd, op.h, [kind |-> "linker", key |-> KeyOpt(op), algo |-> op.algo,
                                 opts |-> op.opts, target |-> op.target,
                                 snap |-> ext[op.target], pos |-> 0])
         /\ res' = Ok("handle")
         /\ UNCHANGED disk

LinkerRead(op) ==
    /\ Has(hd, op.h) /\ hd[op.h].kind = "linker"
    /\ LET r   == hd[op.h]
           rem == LenOf(r.snap) - r.pos
           cnt == IF op.n < rem THEN op.n ELSE rem IN
       /\ op.slice_ok
       /\ hd' = [hd EXCEPT ![op.h].pos = r.pos + cnt]
       /\ res' = Ok(cnt)
    /\ UNCHANGED disk

\* commit reads the remainder itself, so partial reads before commit change nothing
LinkerCommit(op) ==
    /\ Has(hd, op.h) /\ hd[op.h].kind = "linker"
    /\ LET r == hd[op.h]
           d == r.snap
           addr == [a |-> r.algo, d |-> d] IN
       /\ hd' = Del(hd, op.h)
       /\ IF LinkBlocked(addr) THEN res' = Err("IoExists") /\ UNCHANGED disk
          ELSE /\ CommitEffect(op, r.key, r.algo, d, LenOf(d), r.opts, LinkStore(addr, r.target))
               /\ UNCHANGED <<ext, tmp>>

(* ---- environment (not library calls) ------------------------------------------------ *)

\* someone other than the library changes files: content damage, bucket damage, external
\* files created/changed/removed.  The new value is given by the event.
EnvContent(op) ==       \* op.addr, op.c = <<>> (removed) or <<content>>
    /\ store' = IF op.c = <<>> THEN Del(store, op.addr) ELSE Upd(store, op.addr, op.c[1])
    /\ UNCHANGED <<buckets, ext, tmp, hasIndex, hd, res>>

EnvBucket(op) ==        \* op.key (a key of the bucket), op.lines = <<>> (file removed) or << lines >>
    /\ buckets' = IF op.lines = <<>> THEN Del(buckets, BucketOf(op.key))
                  ELSE Upd(buckets, BucketOf(op.key), op.lines[1])
    /\ hasIndex' = (hasIndex \/ op.lines # <<>>)
    /\ UNCHANGED <<store, ext, tmp, hd, res>>

EnvExt(op) ==           \* op.id, op.b = <<>> (removed) or <<bytes>>
    /\ ext' = IF op.b = <<>> THEN Del(ext, op.id) ELSE Upd(ext, op.id, op.b[1])
    /\ UNCHANGED <<buckets, store, tmp, hasIndex, hd, res>>

\* a process died while it held a writer: its temp file stays behind (nobody's any more)
\* (kept in hd as a writer nobody holds, so that TmpAccounted - temp files = live writers -
\* still says what it should; clear sweeps it like any other temp file)
EnvTmp(op) ==
    /\ tmp' = tmp + op.n
    /\ hd' = IF op.n = 1
             THEN Upd(hd, op.h, [kind |-> "writer", key |-> <<>>, algo |-> "sha256", opts |-> NoOpts,
                                 n |-> 0, closed |-> FALSE, gone |-> FALSE, plan |-> "orphan"])
             ELSE hd
    /\ UNCHANGED <<buckets, store, ext, hasIndex, res>>

\* a file that is no key's bucket appears under index-v5 (.DS_Store, an .nfs leftover, a README
\* someone dropped there): no lookup, listing or removal may be affected by it
EnvStray(op) ==
    /\ hasIndex' = TRUE
    /\ UNCHANGED <<buckets, store, ext, tmp, hd, res>>

(* ---- dispatch -------------------------------------------------------------------------- *)

Do(op) ==
    CASE op.op = "read"         -> Read(op)
      [] op.op = "metadata"     -> Metadata(op)
      [] op.op = "exists"       -> Exists(op)
      [] op.op = "list"         -> List(op)
      [] op.op = "extract"      -> Extract(op)
      [] op.op = "open_reader"  -> OpenReader(op)
      [] op.op = "r_read"       -> ReadSome(op)
      [] op.op = "r_check"      -> Check(op)
      [] op.op = "write"        -> WriteOneShot(op)
      [] op.op = "open_writer"  -> OpenWriter(op)
      [] op.op = "w_write"      -> WriteChunk(op)
      [] op.op = "w_flush"      -> FlushWriter(op)
      [] op.op = "w_close"      -> CloseWriter(op)
      [] op.op = "w_commit"     -> Commit(op)
      [] op.op = "h_drop"       -> DropHandle(op)
      [] op.op = "index_insert" -> IndexInsert(op)
      [] op.op = "remove"       -> Remove(op)
      [] op.op = "remove_hash"  -> RemoveHash(op)
      [] op.op = "remove_fully" -> RemoveFully(op)
      [] op.op = "clear"        -> Clear(op)
      [] op.op = "link_to"      -> LinkOneShot(op)
      [] op.op = "open_linker"  -> OpenLinker(op)
      [] op.op = "l_read"       -> LinkerRead(op)
      [] op.op = "l_commit"     -> LinkerCommit(op)
      [] op.op = "env_content"  -> EnvContent(op)
      [] op.op = "env_bucket"   -> EnvBucket(op)
      [] op.op = "env_ext"      -> EnvExt(op)
      [] op.op = "env_stray"    -> EnvStray(op)
      [] op.op = "env_tmp"      -> EnvTmp(op)

Init == /\ buckets = EmptyFn /\ store = EmptyFn /\ ext = EmptyFn /\ tmp = 0
        /\ hasIndex = FALSE /\ hd = EmptyFn /\ res = Ok("init")

(* ---- state properties (hold in every reachable state of the contract) -------------------- *)

\* C10: the listing is exactly the set of entries lookups find, one per key
\* (stated for records that sit in their own key's bucket; a record planted in a foreign
\* bucket is listed but not found - only a SHA-1 collision could produce one)
ListAgrees ==
    /\ \A b \in DOMAIN buckets : \A e \in ListingOf(buckets[b]) :
          BucketOf(e.key) = b => Lookup(e.key) = <<e>>
    /\ \A b \in DOMAIN buckets : \A i \in 1..Len(Recs(buckets[b])) :
          LET k == Recs(buckets[b])[i].key IN
          (BucketOf(k) = b /\ Lookup(k) # <<>>) => Lookup(k)[1] \in ListAll

\* C14: temp files exist only for live writers
TmpAccounted ==
    tmp = Cardinality({ h \in DOMAIN hd : hd[h].kind = "writer" /\ ~hd[h].closed /\ ~hd[h].gone })

\* C01: a successful checked retrieval only hands out bytes of a requested digest
\* (stated on the result function, for every integrity value and every state)
NoWrongBytes(sris) == \A s \in sris : ReadRes(s).ok => \E i \in 1..Len(s) : ReadRes(s).v = s[i].d
=============================================================================
