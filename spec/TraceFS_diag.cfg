SPECIFICATION TSpec
CONSTANTS
  LenOf <- FSLenOf
  BucketOf <- FSBucketOf
  ReflinkOK = FALSE
POSTCONDITION Accepted
CHECK_DEADLOCK FALSE
