SPECIFICATION TSpec
CONSTANTS
  LenOf <- FSLenOf
  BucketOf <- FSBucketOf
  ReflinkOK = FALSE
INVARIANTS ContentAtomic NoPartialRecord
POSTCONDITION Accepted
CHECK_DEADLOCK FALSE
