---------------------------- MODULE TraceLayout ----------------------------
(***************************************************************************)
(* Validation of what the library puts on disk against Layout.tla (C17,    *)
(* C15).  Events (NDJSON, env TRACE):                                      *)
(*  {ev:"frame", path:[components as byte seqs], key_sha1:[bytes],         *)
(*   appended:[bytes], json_sha256:[bytes], json:[bytes], fields:[names],  *)
(*   prefix_ok:bool}   a bucket file grew by exactly these bytes; the      *)
(*                     digests are hashlib's                               *)
(*  {ev:"content", path:[...], algo:"sha256", algo_b:[bytes], hex:[bytes]} *)
(*                     a content file appeared; hex is hashlib's digest of *)
(*                     its bytes under algo                                *)
(*  {ev:"other", n:k}  k paths under the root that are neither             *)
(***************************************************************************)
EXTENDS Layout, Json, IOUtils, TLC

Rec == ndJsonDeserialize(IOEnv.TRACE)
N   == Len(Rec)

VARIABLE l
Ev == Rec[l]

IndexDir   == <<105, 110, 100, 101, 120, 45, 118, 53>>                    \* "index-v5"
ContentDir == <<99, 111, 110, 116, 101, 110, 116, 45, 118, 50>>           \* "content-v2"

FrameOK(e) ==
    /\ e.prefix_ok                                   \* the old bytes of the bucket are untouched
    /\ IsHex(e.key_sha1, 40)
    /\ e.path = BucketPath(IndexDir, e.key_sha1)
    /\ IsRecordLine(e.appended, e.json_sha256, e.json)
    /\ e.fields = RecordFields

ContentOK(e) ==
    /\ IsHex(e.hex, HexLen(e.algo))
    /\ e.path = ContentPath(ContentDir, e.algo_b, e.hex)

\* C15: a path touched in the index / content area is the bucket path of the operation's key /
\* the content path of one of the addresses involved, or one of its parent directories
IsPrefixSeq(s, t) == Len(s) <= Len(t) /\ SubSeq(t, 1, Len(s)) = s

TouchOK(e) ==
    \E i \in 1..Len(e.allowed) : IsPrefixSeq(e.path, e.allowed[i])

Init == l = 2
Next == /\ l <= N
        /\ CASE Ev.ev = "frame"   -> FrameOK(Ev)
             [] Ev.ev = "content" -> ContentOK(Ev)
             [] Ev.ev = "other"   -> Ev.n = 0
             [] Ev.ev = "touch"   -> TouchOK(Ev)
             [] OTHER             -> TRUE
        /\ l' = l + 1
Spec == Init /\ [][Next]_l

Accepted ==
    LET d == TLCGet("stats").diameter IN
    IF d = N THEN PrintT(<<"ACCEPTED", N>>)
    ELSE PrintT(<<"REJECTED", d + 1, N>>) /\ FALSE
=============================================================================
