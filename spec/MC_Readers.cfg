CONSTANTS
  Key = {k1, k2}
  Val = {v1}
  None = None
  Reader = {r1, r2}
SPECIFICATION Spec
CONSTRAINT Bound
INVARIANTS Inv
CHECK_DEADLOCK FALSE
