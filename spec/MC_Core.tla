------------------------------ MODULE MC_Core ------------------------------
(***************************************************************************)
(* Exhaustive model checking of the contract Cacache.tla for small         *)
(* constants.  One module, several configurations (MC_Core_*.cfg): each    *)
(* configuration enables a subset of the operation families (constant      *)
(* Fam), because the full product is far beyond reach while each property  *)
(* needs only a few factors to vary.                                       *)
(*                                                                         *)
(* Ghost variables (absmap, pub, nops, hist) are history variables used to *)
(* state the properties and to export behaviours for replay; they do not   *)
(* influence the contract's actions.                                       *)
(***************************************************************************)
EXTENDS Cacache, Json

CONSTANTS Keys,          \* keys used by operations
          Datas,         \* data ids (strings); lengths by MCLenOf
          Algos,         \* algorithms used by writes
          Times,         \* clock values / explicit timestamps
          Metas,         \* metadata ids that may be supplied
          Dests,         \* extraction destinations / link targets (ext ids)
          Fam,           \* enabled operation families (set of strings)
          MaxOps,        \* history length bound
          Collide,       \* TRUE: all keys share one bucket file (SHA-1 collision configuration)
          ExportAt,      \* history length at which behaviours are printed (0: never)
          MultiSri       \* TRUE: declared integrities are multi-hash values whose strongest
                         \* algorithm differs from the writer's (the known finding of C08/C02)

VARIABLES absmap,        \* ghost: key -> Option(entry): the map the log-structured index refines
          pub,           \* ghost: addresses published by a successful or rejected commit
          nops,          \* number of calls so far
          hist           \* ghost: the calls and their results (exported for replay)

mvars == <<vars, absmap, pub, nops, hist>>
mview == <<buckets, store, ext, tmp, hasIndex, hd, absmap, pub, nops>>

MCLenOf(d) == CASE d = "empty" -> 0
                [] d = "d1" -> 1
                [] d = "d2" -> 2
                [] d = "d3" -> 2
                [] d = "ABSENT" -> 0
                [] OTHER -> 3
MCBucketOf(k) == IF Collide THEN "b" ELSE k

H(a, d) == [a |-> a, d |-> d]

SizeChoices(d) == { <<>>, <<MCLenOf(d)>>, <<MCLenOf(d) + 1>> } \cup
                  (IF MCLenOf(d) > 0 THEN { <<MCLenOf(d) - 1>> } ELSE {})
\* declared integrity: none, right, wrong digest, other algorithm only, multi containing right
Rank(a) == CASE a = "sha512" -> 0 [] a = "sha384" -> 1 [] a = "sha256" -> 2 [] a = "sha1" -> 3 [] OTHER -> 4
SriChoices(a, d) ==
    IF MultiSri
    THEN \* the right hash preceded by a hash of a stronger algorithm (ssri sorts strongest first)
         { <<H(b, d), H(a, d)>> : b \in { x \in Algos : Rank(x) < Rank(a) } }
    ELSE { <<>>, <<H(a, d)>>, <<H(a, "bogus")>> }
         \cup { <<H(b, d)>> : b \in Algos \ {a} }
         \* multi-hash containing the right one, the writer's algorithm being the strongest
         \cup { <<H(a, d), H(b, d)>> : b \in { x \in Algos : Rank(x) > Rank(a) } }
OptsFor(a, d) ==
    [size : SizeChoices(d), sri : SriChoices(a, d), time : {"DEFAULT"} \cup Times,
     meta : {"DEFAULT"} \cup Metas, raw : {"DEFAULT"}]
SimpleOpts == [size : {<<>>}, sri : {<<>>}, time : {"DEFAULT"} \cup Times,
               meta : {"DEFAULT"} \cup Metas, raw : {"DEFAULT"}]

Addrs == { H(a, d) : a \in Algos, d \in Datas }

OpsWrite ==
    { [op |-> "write", key |-> k, data |-> d, algo |-> a, now |-> t, now_ok |-> TRUE]
        : k \in Keys, d \in Datas, a \in Algos, t \in Times }
    \cup { [op |-> "write", data |-> d, algo |-> a] : d \in Datas, a \in Algos }
OpsInsert ==
    { [op |-> "index_insert", key |-> k, opts |-> o, now |-> t, now_ok |-> TRUE]
        : k \in Keys, t \in Times,
          o \in [size : {<<>>}, sizes : {"DEFAULT", "7"}, sri : {<<>>} \cup { <<x>> : x \in Addrs },
                 time : {"DEFAULT"}, meta : {"DEFAULT"} \cup Metas, raw : {"DEFAULT"}] }
\* a record no reader could parse back (see Cacache!Storable): refused, nothing changes
OpsInsertDeep ==
    { [op |-> "index_insert", key |-> k, now |-> t, now_ok |-> TRUE,
       opts |-> [size |-> <<>>, sizes |-> "DEFAULT", sri |-> <<x>>, time |-> "DEFAULT", meta |-> m,
                 raw |-> "DEFAULT", storable |-> FALSE]]
        : k \in Keys, t \in Times, x \in Addrs, m \in Metas }
OpsRemove ==
    { [op |-> "remove", key |-> k, now |-> t, now_ok |-> TRUE] : k \in Keys, t \in Times }
    \cup { [op |-> "remove_hash", sri |-> <<x>>] : x \in Addrs }
    \cup { [op |-> "remove_fully", key |-> k] : k \in Keys }
    \cup { [op |-> "clear"] }
OpsLookup ==
    { [op |-> "metadata", key |-> k] : k \in Keys }
    \cup { [op |-> "read", key |-> k] : k \in Keys }
    \cup { [op |-> "read", sri |-> <<x>>] : x \in Addrs }
    \cup { [op |-> "exists", sri |-> <<x>>] : x \in Addrs }
    \cup { [op |-> "list"] }
OpsExtract ==
    { [op |-> "extract", kind |-> kd, checked |-> c, key |-> k, to |-> t]
        : kd \in {"copy", "hard_link", "reflink"}, c \in BOOLEAN, k \in Keys, t \in Dests }
    \cup { [op |-> "extract", kind |-> kd, checked |-> c, sri |-> <<x>>, to |-> t]
        : kd \in {"copy", "hard_link", "reflink"}, c \in BOOLEAN, x \in Addrs, t \in Dests }
\* content damage: flip/truncate/extend (bytes "dmg"), bytes of another valid entry, removal,
\* replacement by a link to an external file
OpsDamage ==
    { [op |-> "env_content", addr |-> x, c |-> c]
        : x \in Addrs, c \in { <<>>, <<FileC("dmg")>> } \cup { <<FileC(d)>> : d \in Datas }
                               \cup { <<LinkC(t)>> : t \in Dests } }
OpsExt ==
    { [op |-> "env_ext", id |-> t, b |-> b] : t \in Dests, b \in { <<>> } \cup { <<d>> : d \in Datas } }
OpsLink ==
    { [op |-> "link_to", key |-> k, target |-> t, now |-> tm, now_ok |-> TRUE]
        : k \in Keys, t \in Dests, tm \in Times }
    \cup { [op |-> "link_to", target |-> t] : t \in Dests }

\* streaming handles: one handle id per call index keeps ids unique
HandleOps(h) ==
    UNION { UNION { { [op |-> "open_writer", h |-> h, key |-> k, algo |-> a, opts |-> o, plan |-> d]
                        : k \in Keys, o \in OptsFor(a, d) \cup
                            (IF "deep" \in Fam
                             THEN { [size |-> <<>>, sri |-> <<>>, time |-> "DEFAULT", meta |-> m, raw |-> "DEFAULT",
                                     storable |-> FALSE] : m \in Metas }
                             ELSE {}) }
                    \cup { [op |-> "open_writer", h |-> h, algo |-> a, opts |-> o, plan |-> d]
                        : o \in OptsFor(a, d) }
                  : d \in Datas }
          : a \in Algos }
LiveWriterOps ==
    UNION { LET w == hd[h] IN
            IF w.kind # "writer" THEN {}
            ELSE { [op |-> "w_write", h |-> h, len |-> n, all |-> TRUE]
                     : n \in { m \in 0..2 : w.n + m <= MCLenOf(w.plan) } }
                 \cup (IF w.n = MCLenOf(w.plan)
                       THEN { [op |-> "w_commit", h |-> h, fed |-> w.plan, now |-> t, now_ok |-> TRUE]
                                : t \in Times }
                       ELSE {})
                 \cup { [op |-> "h_drop", h |-> h], [op |-> "w_close", h |-> h] }
          : h \in DOMAIN hd }
LiveReaderOps ==
    UNION { LET r == hd[h] IN
            IF r.kind # "reader" THEN {}
            ELSE { [op |-> "r_read", h |-> h, n |-> n, slice_ok |-> TRUE] : n \in 1..2 }
                 \cup { [op |-> "r_check", h |-> h, delivered |-> d]
                          : d \in { x \in Datas \cup {"dmg", "empty"} :
                                      MCLenOf(x) = r.pos /\ (r.pos = MCLenOf(r.snap) => x = r.snap) } }
                 \cup { [op |-> "h_drop", h |-> h] }
          : h \in DOMAIN hd }
OpenReaderOps(h) ==
    { [op |-> "open_reader", h |-> h, key |-> k] : k \in Keys }
    \cup { [op |-> "open_reader", h |-> h, sri |-> <<x>>] : x \in Addrs }

OpSet ==
    (IF "write"   \in Fam THEN OpsWrite ELSE {})
    \cup (IF "insert"  \in Fam THEN OpsInsert ELSE {})
    \cup (IF "deep"    \in Fam THEN OpsInsertDeep ELSE {})
    \cup (IF "remove"  \in Fam THEN OpsRemove ELSE {})
    \cup (IF "lookup"  \in Fam THEN OpsLookup ELSE {})
    \cup (IF "extract" \in Fam THEN OpsExtract ELSE {})
    \cup (IF "damage"  \in Fam THEN OpsDamage ELSE {})
    \cup (IF "ext"     \in Fam THEN OpsExt ELSE {})
    \cup (IF "stray"   \in Fam THEN { [op |-> "env_stray"] } ELSE {})
    \cup (IF "link"    \in Fam THEN OpsLink ELSE {})
    \cup (IF "writer"  \in Fam
          THEN (IF Cardinality({ h \in DOMAIN hd : hd[h].kind = "writer" }) < 1
                THEN HandleOps(nops) ELSE {}) \cup LiveWriterOps
          ELSE {})
    \cup (IF "reader"  \in Fam
          THEN (IF Cardinality({ h \in DOMAIN hd : hd[h].kind = "reader" }) < 1
                THEN OpenReaderOps(nops) ELSE {}) \cup LiveReaderOps
          ELSE {})

IsEnv(op) == op.op \in {"env_content", "env_bucket", "env_ext", "env_stray", "env_tmp"}

(* ---- ghost bookkeeping --------------------------------------------------- *)

\* the entry a successful keyed call makes current (read off the bucket it appended to)
NewestFor(k) == LookupB(buckets', k)

AbsNext(op) ==
    IF op.op \in {"write", "w_commit", "index_insert", "link_to", "l_commit", "remove"}
       /\ buckets' # buckets
    THEN \* exactly one record was appended, for one key: that key's mapping is what the
         \* record says, every other key keeps its mapping
         LET b == CHOOSE x \in DOMAIN buckets' : (x \notin DOMAIN buckets) \/ buckets'[x] # buckets[x]
             r == buckets'[b][Len(buckets'[b])].r IN
         [absmap EXCEPT ![r.key] = IF r.sri = <<>> THEN <<>> ELSE <<r>>]
    ELSE IF op.op = "remove_fully" /\ buckets' # buckets
    THEN [k \in Keys |-> IF MCBucketOf(k) = MCBucketOf(op.key) THEN <<>> ELSE absmap[k]]
    ELSE IF op.op = "clear" THEN [k \in Keys |-> <<>>]
    ELSE absmap

MCInit == /\ Init
          /\ absmap = [k \in Keys |-> <<>>]
          /\ pub = {}
          /\ nops = 0
          /\ hist = <<>>

MCNext == /\ nops < MaxOps
          /\ \E op \in OpSet :
                /\ Do(op)
                /\ absmap' = AbsNext(op)
                /\ pub' = pub \cup (DOMAIN store' \ DOMAIN store)
                /\ nops' = nops + 1
                /\ hist' = Append(hist, [op |-> op, res |-> res'])

MCSpec == MCInit /\ [][MCNext]_mvars

(* ---- properties -------------------------------------------------------------- *)

\* C05: a lookup returns the entry of the most recent successful write/insert to that key,
\* or nothing after a removal; other keys are never affected (the log-structured index
\* refines a plain map)
LookupRefinesMap == \A k \in Keys : Lookup(k) = absmap[k]

\* C10
ListMatchesMap == ListAll = { absmap[k][1] : k \in { x \in Keys : absmap[x] # <<>> } }

\* C09 frame conditions, as an action property on the whole step
LastOp == hist'[Len(hist')].op
RemovalFrame ==
    [][ LET op == LastOp IN
        /\ (op.op = "remove") =>
              /\ store' = store /\ ext' = ext
              /\ \A k \in Keys \ {op.key} : LookupB(buckets', k) = Lookup(k)
              /\ LookupB(buckets', op.key) = <<>>
        /\ (op.op = "remove_hash") =>
              /\ buckets' = buckets /\ ext' = ext
              /\ \A a \in DOMAIN store : a # Addr(op.sri) => (a \in DOMAIN store' /\ store'[a] = store[a])
              /\ Addr(op.sri) \notin DOMAIN store'
        /\ (op.op = "remove_fully" /\ res'.ok) =>
              /\ LookupB(buckets', op.key) = <<>>
              /\ \A k \in Keys : MCBucketOf(k) # MCBucketOf(op.key) => LookupB(buckets', k) = Lookup(k)
              /\ \A a \in DOMAIN store :
                    (Lookup(op.key) = <<>> \/ a # Addr(Lookup(op.key)[1].sri))
                       => (a \in DOMAIN store' /\ store'[a] = store[a])
        /\ (op.op = "clear") =>
              /\ buckets' = EmptyFn /\ store' = EmptyFn /\ tmp' = 0 /\ ext' = ext
        /\ (op.op \in {"read", "metadata", "exists", "list", "open_reader", "r_read", "r_check"}) =>
              /\ buckets' = buckets /\ store' = store /\ ext' = ext /\ tmp' = tmp
      ]_mvars

\* C08 / C14: a rejected commit, an abandoned writer and every non-commit writer call leave
\* the index untouched; only a commit that reports success maps a key
OnlyCommitMaps ==
    [][ LET op == LastOp IN
        /\ (op.op \in {"open_writer", "w_write", "w_flush", "w_close", "h_drop"}) =>
              (buckets' = buckets /\ store' = store)
        /\ (op.op \in {"w_commit", "write", "link_to", "l_commit"} /\ ~res'.ok) => buckets' = buckets
        /\ (op.op \in {"w_commit", "write", "link_to", "l_commit"} /\ res'.ok /\ Has(op, "key"))
              => LookupB(buckets', op.key) # <<>>
      ]_mvars

\* C08: which error for which mismatch; matching declarations are accepted
CommitVerdict ==
    [][ LET op == LastOp IN
        (op.op = "w_commit" /\ ~hd[op.h].closed /\ ~hd[op.h].gone) =>
           LET w == hd[op.h]
               good_sri == (w.opts.sri = <<>>) \/ Matches(w.opts.sri, H(w.algo, op.fed))
               good_size == (w.opts.size = <<>>) \/ (w.opts.size[1] = w.n) IN
           /\ (good_sri /\ good_size /\ (w.key = <<>> \/ Storable(w.opts))) => res'.ok
           /\ (good_sri /\ good_size /\ w.key # <<>> /\ ~Storable(w.opts)) => (~res'.ok /\ res'.e = "Serde")
           /\ ~good_sri => (~res'.ok /\ res'.e = "Integrity")
           /\ (good_sri /\ ~good_size) => (~res'.ok /\ res'.e = "SizeMismatch")
      ]_mvars

\* C02 / C08: a keyed commit that reported success left an entry whose content is there
CommittedReadable ==
    [][ LET op == LastOp IN
        (op.op = "w_commit" /\ res'.ok /\ hd[op.h].key # <<>>) =>
           LET e == LookupB(buckets', hd[op.h].key[1]) IN
           /\ e # <<>>
           /\ BytesIn(store', ext', Addr(e[1].sri)) = op.fed
      ]_mvars

\* C02: what a successful write stored is what reads by key and by address return
RoundTrip ==
    [][ LET op == LastOp IN
        (op.op \in {"write", "w_commit"} /\ res'.ok) =>
           LET d == IF op.op = "write" THEN op.data ELSE op.fed
               a == IF op.op = "write" THEN op.algo ELSE hd[op.h].algo IN
           /\ BytesIn(store', ext', H(a, d)) = d
           /\ res'.v[1].a \in Algos
      ]_mvars

\* C01 / C18: checked retrievals hand out only bytes of a requested digest, and a checked
\* extraction that fails verification leaves the destination as it was
CheckedNeverWrong ==
    [][ LET op == LastOp IN
        /\ (op.op = "read" /\ res'.ok) =>
              LET t == SriFor(op) IN \E i \in 1..Len(t[1]) : res'.v = t[1][i].d
        /\ (op.op = "extract" /\ op.checked /\ res'.ok) =>
              LET t == SriFor(op) IN \E i \in 1..Len(t[1]) : ext'[op.to] = t[1][i].d
        /\ (op.op = "extract" /\ ~res'.ok) => ext' = ext
        /\ (op.op = "extract" /\ res'.ok /\ op.kind = "copy") => res'.v = MCLenOf(ext'[op.to])
        /\ (op.op = "r_check" /\ res'.ok) =>
              \E i \in 1..Len(hd[op.h].sri) : op.delivered = hd[op.h].sri[i].d
      ]_mvars

\* C16: an address only ever holds its own data once published by the library, a second
\* write of equal data adds no second copy, and algorithms do not interfere
AddressesPure ==
    [][ LET op == LastOp IN
        (~IsEnv(op)) =>
           /\ \A a \in DOMAIN store' :
                 (a \notin DOMAIN store \/ store'[a] # store[a]) =>
                     (store'[a].k = "file" => store'[a].b = a.d)
           /\ (op.op \in {"write", "w_commit"}) =>
                 \A a \in DOMAIN store : (a.a # (IF op.op = "write" THEN op.algo ELSE hd[op.h].algo))
                                            => (a \in DOMAIN store' /\ store'[a] = store[a])
      ]_mvars

\* C19: no library call ever changes an external file that is a link target, and a linked
\* entry reads back the target's bytes or fails
TargetsUntouched ==
    [][ LET op == LastOp IN
        (op.op \in {"link_to", "read", "metadata", "remove", "write"}) => ext' = ext
      ]_mvars

TypeOK == /\ tmp \in Nat /\ hasIndex \in BOOLEAN /\ nops \in 0..MaxOps

\* behaviours exported for replay into the implementation
Export == (ExportAt > 0 /\ Len(hist) = ExportAt) => PrintT(<<"REPLAY", ToJson(hist)>>)
=============================================================================
