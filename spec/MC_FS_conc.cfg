CONSTANTS
  Procs = {p1, p2, p3}
  Keys = {"k1", "k2"}
  Datas = {"d1", "d2"}
  OpSet <- MCOpsAll
  MaxStarts = 3
  AllowCrash = FALSE
  MaxFaults = 0
  NoFile = NoFile
  IsEmptyData <- MCIsEmpty
SPECIFICATION Spec
INVARIANTS ContentAtomic NoPartialRecord TmpPrivate Serializable
CHECK_DEADLOCK FALSE
