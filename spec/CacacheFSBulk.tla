---------------------------- MODULE CacacheFSBulk ----------------------------
(***************************************************************************)
(* The multi-step bulk deletions on top of CacacheFS.tla:                  *)
(*   remove_fully(k) = lookup ; unlink(content of the entry) ; unlink(bucket)*)
(*   clear           = readdir(root) ; remove_dir_all(child) for each child  *)
(*                     (one unlink per file, in any order)                   *)
(* racing with the single-call operations of CacacheFS.  The properties C07 *)
(* excludes both from its serialisability claim ("documented multi-step     *)
(* bulk deletions"); this module states what IS guaranteed when they race - *)
(*   ContentAtomic, NoPartialRecord   (no partial file is ever visible)     *)
(*   OtherBucketsUntouched            remove_fully(k) changes no other bucket*)
(*   ClearedOnlyWhatWasSeen           clear deletes only files that existed  *)
(*                                    when it listed the directory           *)
(*   WritersReturn                    a writer whose temp file or bucket was *)
(*                                    swept away still terminates (error or  *)
(*                                    success)                               *)
(* - and lets TLC exhibit why serialisability is not claimed: SerializableB  *)
(* is EXPECTED to be violated (a writer that opened the bucket before it was *)
(* unlinked appends to the orphaned inode: its successful write is lost).    *)
(***************************************************************************)
EXTENDS CacacheFS

VARIABLES bgen,    \* Keys -> Nat : incarnation of the bucket file (bumped by unlink)
          wgen,    \* Procs -> Nat : incarnation the writer's descriptor refers to
          tgone,   \* Procs -> BOOLEAN : the writer's temp file has been unlinked by clear
          csnap    \* Procs -> what a clear saw when it listed the cache:
                   \*          [c: SUBSET Datas, b: SUBSET Keys, t: SUBSET Procs]

bvars == <<vars, bgen, wgen, tgone, csnap>>
NewUnch == UNCHANGED <<bgen, wgen, tgone, csnap>>

BInit == /\ Init
         /\ bgen = [k \in Keys |-> 0] /\ wgen = [p \in Procs |-> 0]
         /\ tgone = [p \in Procs |-> FALSE]
         /\ csnap = [p \in Procs |-> [c |-> {}, b |-> {}, t |-> {}]]

BFirstPc(o) == CASE o.op = "remove_fully" -> "rf_look"
                 [] o.op = "clear" -> "c_scan"
                 [] OTHER -> FirstPc(o)

BStart(p, o) ==
    /\ pc[p] = "idle" /\ nstarts < MaxStarts
    /\ nstarts' = nstarts + 1
    /\ op' = [op EXCEPT ![p] = o]
    /\ pc' = [pc EXCEPT ![p] = BFirstPc(o)]
    /\ seen' = [seen EXCEPT ![p] = <<>>]
    /\ todo' = [todo EXCEPT ![p] = Keys] /\ acc' = [acc EXCEPT ![p] = {}]
    /\ tgone' = [tgone EXCEPT ![p] = FALSE]
    /\ UNCHANGED <<cf, tmpf, bex, bk, res, fdc, crashed, nfaults, log, bgen, wgen, csnap>>

(* ---- overridden steps of the single-call operations ----------------------------- *)

BOpenBucketW(p) ==     \* the descriptor refers to the current incarnation of the file
    /\ OpenBucketW(p)
    /\ wgen' = [wgen EXCEPT ![p] = bgen[op[p].k]]
    /\ UNCHANGED <<bgen, tgone, csnap>>

\* a record appended through a descriptor of an unlinked bucket goes to the orphaned inode
BAppendRecord(p) ==
    /\ pc[p] \in {"w_app", "x_app"}
    /\ IF wgen[p] = bgen[op[p].k]
       THEN AppendRecord(p)
       ELSE /\ pc[p] \in {"w_app", "x_app"}
            /\ Finish(p, Ok(IF pc[p] = "w_app" THEN op[p].d ELSE "unit"))
            /\ UNCHANGED <<cf, tmpf, bex, bk, op, seen, fdc, acc, todo, crashed, nfaults, nstarts>>
    /\ NewUnch

\* persisting a temp file that clear has removed fails; accepted iff the destination exists
BPublish(p) ==
    /\ pc[p] = "w_data"
    /\ IF ~tgone[p]
       THEN Publish(p)
       ELSE /\ pc[p] = "w_data" /\ tmpf[p].n = 2
            /\ tmpf' = [tmpf EXCEPT ![p] = NoFile]
            /\ IF cf[op[p].d] = NoFile
               THEN Finish(p, Err("IoNotFound"))
               ELSE IF op[p].op = "write_hash" THEN Finish(p, Ok(op[p].d))
               ELSE pc' = [pc EXCEPT ![p] = "w_open"] /\ UNCHANGED <<res, log>>
            /\ UNCHANGED <<cf, bex, bk, op, seen, fdc, acc, todo, crashed, nfaults, nstarts>>
    /\ NewUnch

(* ---- remove_fully -------------------------------------------------------------------- *)

RfLookup(p) ==         \* metadata(key): open + read of the bucket (taken as one step here)
    /\ pc[p] = "rf_look"
    /\ LET v == Lookup(op[p].k) IN
       IF v = "NONE"
       THEN pc' = [pc EXCEPT ![p] = "rf_unlb"] /\ UNCHANGED op
       ELSE /\ pc' = [pc EXCEPT ![p] = "rf_unlc"]
            /\ op' = [op EXCEPT ![p] = [op |-> "remove_fully", k |-> op[p].k, d |-> v]]
    /\ UNCHANGED <<cf, tmpf, bex, bk, res, seen, fdc, acc, todo, crashed, nfaults, nstarts, log>>
    /\ NewUnch

RfUnlinkContent(p) ==  \* unlink(content of the entry); a missing file is an error (bucket stays)
    /\ pc[p] = "rf_unlc"
    /\ IF cf[op[p].d] = NoFile
       THEN Finish(p, Err("IoNotFound")) /\ UNCHANGED cf
       ELSE /\ cf' = [cf EXCEPT ![op[p].d] = NoFile]
            /\ pc' = [pc EXCEPT ![p] = "rf_unlb"] /\ UNCHANGED <<res, log>>
    /\ UNCHANGED <<tmpf, bex, bk, op, seen, fdc, acc, todo, crashed, nfaults, nstarts>>
    /\ NewUnch

RfUnlinkBucket(p) ==   \* unlink(bucket): the whole bucket file goes
    /\ pc[p] = "rf_unlb"
    /\ IF ~bex[op[p].k]
       THEN Finish(p, Err("IoNotFound")) /\ UNCHANGED <<bex, bk, bgen>>
       ELSE /\ bex' = [bex EXCEPT ![op[p].k] = FALSE]
            /\ bk' = [bk EXCEPT ![op[p].k] = <<>>]
            /\ bgen' = [bgen EXCEPT ![op[p].k] = @ + 1]
            /\ Finish(p, Ok("unit"))
    /\ UNCHANGED <<cf, tmpf, op, seen, fdc, acc, todo, crashed, nfaults, nstarts, wgen, tgone, csnap>>

(* ---- clear ------------------------------------------------------------------------------ *)

ClearScan(p) ==        \* readdir: what exists now is what will be deleted
    /\ pc[p] = "c_scan"
    /\ csnap' = [csnap EXCEPT ![p] = [c |-> { d \in Datas : cf[d] # NoFile },
                                       b |-> { k \in Keys : bex[k] },
                                       t |-> { q \in Procs : tmpf[q] # NoFile /\ ~tgone[q] }]]
    /\ pc' = [pc EXCEPT ![p] = "c_del"]
    /\ UNCHANGED <<cf, tmpf, bex, bk, op, res, seen, fdc, acc, todo, crashed, nfaults, nstarts, log,
                   bgen, wgen, tgone>>

ClearStep(p) ==        \* one unlink of the recursive removal, in any order
    /\ pc[p] = "c_del"
    /\ \/ \E d \in csnap[p].c :
            /\ cf' = [cf EXCEPT ![d] = NoFile]
            /\ csnap' = [csnap EXCEPT ![p].c = @ \ {d}]
            /\ UNCHANGED <<bex, bk, bgen, tgone>>
       \/ \E k \in csnap[p].b :
            /\ bex' = [bex EXCEPT ![k] = FALSE] /\ bk' = [bk EXCEPT ![k] = <<>>]
            /\ bgen' = [bgen EXCEPT ![k] = IF bex[k] THEN @ + 1 ELSE @]
            /\ csnap' = [csnap EXCEPT ![p].b = @ \ {k}]
            /\ UNCHANGED <<cf, tgone>>
       \/ \E q \in csnap[p].t :
            /\ tgone' = [tgone EXCEPT ![q] = (tmpf[q] # NoFile)]
            /\ csnap' = [csnap EXCEPT ![p].t = @ \ {q}]
            /\ UNCHANGED <<cf, bex, bk, bgen>>
    /\ UNCHANGED <<tmpf, pc, op, res, seen, fdc, acc, todo, crashed, nfaults, nstarts, log, wgen>>

ClearDone(p) ==
    /\ pc[p] = "c_del" /\ csnap[p].c = {} /\ csnap[p].b = {} /\ csnap[p].t = {}
    /\ Finish(p, Ok("unit"))
    /\ UNCHANGED <<cf, tmpf, bex, bk, op, seen, fdc, acc, todo, crashed, nfaults, nstarts>>
    /\ NewUnch

BNext == \/ \E p \in Procs : \E o \in OpSet : BStart(p, o)
         \/ \E p \in Procs :
              \/ (CreateTmp(p) /\ NewUnch) \/ (WriteTmp(p) /\ NewUnch) \/ BPublish(p)
              \/ BOpenBucketW(p) \/ BAppendRecord(p)
              \/ (OpenBucketR(p) /\ NewUnch) \/ (ReadBucket(p) /\ NewUnch) \/ (OpenContent(p) /\ NewUnch)
              \/ (ReadContent(p) /\ NewUnch) \/ (UnlinkContent(p) /\ NewUnch) \/ (StatContent(p) /\ NewUnch)
              \/ (WalkVisit(p) /\ NewUnch) \/ (SymlinkContent(p) /\ NewUnch)
              \/ RfLookup(p) \/ RfUnlinkContent(p) \/ RfUnlinkBucket(p)
              \/ ClearScan(p) \/ ClearStep(p) \/ ClearDone(p)

BSpec == BInit /\ [][BNext]_bvars

(* ---- what is guaranteed ------------------------------------------------------------------- *)

\* remove_fully(k) changes no bucket but k's; clear changes only what it saw
OtherBucketsUntouched ==
    [][ \A p \in Procs :
          (pc[p] \in {"rf_look", "rf_unlc", "rf_unlb"} /\ pc'[p] # pc[p]) =>
             \A k \in Keys \ {op[p].k} : bk'[k] = bk[k] /\ bex'[k] = bex[k]
      ]_bvars

ClearedOnlyWhatWasSeen ==
    [][ \A p \in Procs :
          (pc[p] = "c_del" /\ csnap'[p] # csnap[p]) =>
             /\ \A d \in Datas : cf'[d] # cf[d] => d \in csnap[p].c
             /\ \A k \in Keys : bex'[k] # bex[k] => k \in csnap[p].b
      ]_bvars

\* a writer that lost its temp file or its bucket to a bulk deletion still terminates
WritersReturn == \A p \in Procs : tgone[p] => pc[p] \in {"w_data", "done", "dead", "w_open", "w_app"}

(* serial semantics including the bulk operations (each taken atomically); the serial state
   also records which bucket files exist, because remove_fully reports a missing bucket *)
EmptyB == [m |-> [k \in Keys |-> "NONE"], c |-> {}, b |-> {}]
Base(st) == [m |-> st.m, c |-> st.c]
SeqApplyB(st, o) ==
    CASE o.op = "remove_fully" ->
           IF st.m[o.k] # "NONE" /\ st.m[o.k] \notin st.c
           THEN [st |-> st, r |-> Err("IoNotFound")]
           ELSE IF o.k \notin st.b
           THEN [st |-> st, r |-> Err("IoNotFound")]
           ELSE [st |-> [m |-> [st.m EXCEPT ![o.k] = "NONE"],
                         c |-> IF st.m[o.k] = "NONE" THEN st.c ELSE st.c \ {st.m[o.k]},
                         b |-> st.b \ {o.k}],
                 r |-> Ok("unit")]
      [] o.op = "clear" -> [st |-> EmptyB, r |-> Ok("unit")]
      [] OTHER -> LET x == SeqApply(Base(st), o) IN
                  [st |-> [m |-> x.st.m, c |-> x.st.c,
                           b |-> IF o.op \in {"write", "remove"} THEN st.b \cup {o.k} ELSE st.b],
                   r |-> x.r]

RECURSIVE RunSerialB(_, _)
RunSerialB(seq, st) ==
    IF seq = <<>> THEN [ok |-> TRUE, st |-> st]
    ELSE LET x == SeqApplyB(st, Head(seq).op) IN
         IF x.r.ok # Head(seq).res.ok THEN [ok |-> FALSE, st |-> st]
         ELSE RunSerialB(Tail(seq), x.st)

AbsNowB == [m |-> [k \in Keys |-> Lookup(k)], c |-> { d \in Datas : cf[d] # NoFile },
            b |-> { k \in Keys : bex[k] }]

\* EXPECTED TO FAIL: with remove_fully or clear racing with a keyed write the outcome need not be
\* that of any serial order (the write reports success and is lost)
SerializableB ==
    (Quiescent /\ Len(log) > 0) =>
       \E f \in Perms(Len(log)) :
          LET x == RunSerialB([i \in 1..Len(log) |-> log[f[i]]], EmptyB) IN
          x.ok /\ x.st = AbsNowB
=============================================================================
