---- MODULE MC_Readers ----
EXTENDS IndexReaders
Bound == Len(log) <= 3
Spec == Init /\ [][Next]_vars
SomeDone == \A r \in Reader : ~res[r].done
====
