CONSTANTS
  Keys = {"k1", "k2"}
  Datas = {"d1", "d2"}
  Algos = {"sha256"}
  Times = {"1", "2"}
  Metas = {"m1"}
  Dests = {}
  Fam = {"write", "insert", "remove", "lookup"}
  MaxOps = 4
  Collide = FALSE
  ExportAt = 0
  MultiSri = FALSE
  LenOf <- MCLenOf
  BucketOf <- MCBucketOf
  ReflinkOK = FALSE
SPECIFICATION MCSpec
VIEW mview
INVARIANTS TypeOK LookupRefinesMap ListMatchesMap ListAgrees TmpAccounted
PROPERTIES RemovalFrame OnlyCommitMaps RoundTrip AddressesPure
CHECK_DEADLOCK FALSE
