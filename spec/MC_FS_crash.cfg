CONSTANTS
  Procs = {p1, p2, p3}
  Keys = {"k1", "k2"}
  Datas = {"d1", "d2"}
  OpSet <- MCOpsNoRH
  MaxStarts = 3
  AllowCrash = TRUE
  MaxFaults = 0
  NoFile = NoFile
  IsEmptyData <- MCIsEmpty
SPECIFICATION Spec
INVARIANTS ContentAtomic NoPartialRecord Resolvable CrashAtomic
CHECK_DEADLOCK FALSE
