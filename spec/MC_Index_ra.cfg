CONSTANTS
  Keys = {k1, k2}
  Vals = {v1}
  NULLV = NULLV
  NONE = NONE
  MaxAppends = 3
  MaxDamage = 0
  StopAtBad8 = FALSE
SPECIFICATION Spec
VIEW view
INVARIANTS RefinesAbstract
CHECK_DEADLOCK FALSE
