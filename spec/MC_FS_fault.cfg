CONSTANTS
  Procs = {p1, p2}
  Keys = {"k1", "k2"}
  Datas = {"d1", "d2"}
  OpSet <- MCOpsNoRH
  MaxStarts = 3
  AllowCrash = FALSE
  MaxFaults = 2
  NoFile = NoFile
  IsEmptyData <- MCIsEmpty
SPECIFICATION Spec
INVARIANTS ContentAtomic Resolvable Truthful TmpPrivate
CHECK_DEADLOCK FALSE
