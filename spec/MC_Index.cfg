CONSTANTS
  Keys = {k1, k2}
  Vals = {v1}
  NULLV = NULLV
  NONE = NONE
  MaxAppends = 3
  MaxDamage = 1
  StopAtBad8 = FALSE
SPECIFICATION Spec
VIEW view
INVARIANTS TypeOK Contained ListAgrees LookupLatest RefinesAbstract
PROPERTIES TornAtomic
CHECK_DEADLOCK FALSE
