----------------------------- MODULE MC_FSSched -----------------------------
(***************************************************************************)
(* Specification -> implementation at the system-call level: behaviours of *)
(* CacacheFS.tla exported as SCHEDULES.  Every step of the specification   *)
(* is labelled (process, action); TLC in simulation mode prints the label  *)
(* sequence of each complete behaviour.  vf/fsplans.py:model_schedules     *)
(* turns a label sequence into a run of real processes under the lock-step *)
(* tracer: a "start" spawns the process, every other label lets that       *)
(* process run until it has issued the system call the action stands for   *)
(* (see sched_class).  The recorded run is then validated like every other *)
(* concurrent run: TraceFS (step rules, invariants), TraceFS2 (it IS a     *)
(* behaviour of CacacheFS) and SerialAPI (a serial order explains it).     *)
(***************************************************************************)
EXTENDS MC_FS, Json

VARIABLE sched
svars == <<vars, sched>>

Lab(p, a) == sched' = Append(sched, [p |-> p, a |-> a])

SInit == Init /\ sched = <<>>

SNext == \/ \E p \in Procs : \E o \in OpSet :
              Start(p, o) /\ sched' = Append(sched, [p |-> p, a |-> "start", o |-> o])
         \/ \E p \in Procs :
              \/ (CreateTmp(p) /\ Lab(p, "create_tmp"))
              \/ (WriteTmp(p) /\ Lab(p, "write_tmp"))
              \/ (Publish(p) /\ Lab(p, "publish"))
              \/ (OpenBucketW(p) /\ Lab(p, "open_bucket_w"))
              \/ (AppendRecord(p) /\ Lab(p, "append"))
              \/ (OpenBucketR(p) /\ Lab(p, "open_bucket_r"))
              \/ (ReadBucket(p) /\ Lab(p, "read_bucket"))
              \/ (OpenContent(p) /\ Lab(p, "open_content"))
              \/ (ReadContent(p) /\ Lab(p, "read_content"))
              \/ (UnlinkContent(p) /\ Lab(p, "unlink_content"))
              \/ (StatContent(p) /\ Lab(p, "stat_content"))
              \/ (WalkVisit(p) /\ Lab(p, "walk_visit"))
              \/ (SymlinkContent(p) /\ Lab(p, "symlink"))

SSpec == SInit /\ [][SNext]_svars

\* printed once per behaviour: when every started operation has returned and no start is left
ExportSched ==
    (nstarts = MaxStarts /\ \A p \in Procs : ~Running(p)) =>
        PrintT(<<"SCHED", ToJson([steps |-> sched,
                                  results |-> [i \in 1..Len(log) |-> [p |-> log[i].p, ok |-> log[i].res.ok]]])>>)
=============================================================================
