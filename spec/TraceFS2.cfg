SPECIFICATION T2Spec
CONSTANTS
  Procs <- TProcs
  Keys <- TKeys
  Datas <- TDatas
  OpSet <- TOps
  MaxStarts = 1000000
  AllowCrash = TRUE
  MaxFaults = 1000000
  NoFile = NoFile
  IsEmptyData <- TIsEmpty
POSTCONDITION Accepted2
CHECK_DEADLOCK FALSE
