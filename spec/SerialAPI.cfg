SPECIFICATION SSpec
CONSTANTS
  LenOf <- SLenOf
  BucketOf <- SBucketOf
  ReflinkOK = FALSE
POSTCONDITION Accepted
CHECK_DEADLOCK FALSE
