SPECIFICATION SSpec
CONSTANTS
  LenOf <- SLenOf
  BucketOf <- SBucketOf
  ReflinkOK <- SReflink
POSTCONDITION Accepted
CHECK_DEADLOCK FALSE
