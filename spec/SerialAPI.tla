----------------------------- MODULE SerialAPI -----------------------------
(***************************************************************************)
(* Serialisability oracle for concurrent runs (C07).                       *)
(*                                                                         *)
(* Each line after the header is one HISTORY recorded under the lock-step  *)
(* tracer: the projection of the cache before the concurrent phase, the    *)
(* operations the processes executed with the result each one returned,    *)
(* and the projection after all of them finished.  TLC searches for a      *)
(* sequential order of the operations that, executed atomically by the     *)
(* contract Cacache.tla from the initial projection, gives every operation *)
(* the result it returned and ends in the final projection.  A history is  *)
(* accepted iff such an order exists; the trace is accepted iff every      *)
(* history is.                                                             *)
(***************************************************************************)
EXTENDS Cacache, Json, IOUtils

Rec == ndJsonDeserialize(IOEnv.TRACE)
N   == Len(Rec)
Hdr == Rec[1]

SLenOf(id)   == Hdr.lens[id]
SBucketOf(k) == k
SReflink     == Hdr.reflink       \* FICLONE available (emulated by the tracer on this file system)

VARIABLES h,        \* index of the history being explained
          loaded,   \* its initial projection has been adopted
          done      \* indices of its operations already placed in the serial order

svars == <<vars, h, loaded, done>>

Range(s) == { s[i] : i \in 1..Len(s) }

ObsBuckets(e) == [k \in { e.buckets[i].key : i \in 1..Len(e.buckets) } |->
                    (e.buckets[CHOOSE i \in 1..Len(e.buckets) : e.buckets[i].key = k]).lines]
ObsStore(e)   == [a \in { [a |-> e.store[i].a, d |-> e.store[i].d] : i \in 1..Len(e.store) } |->
                    (e.store[CHOOSE i \in 1..Len(e.store) :
                                e.store[i].a = a.a /\ e.store[i].d = a.d]).c]
ObsExt(e)     == [x \in { e.ext[i].id : i \in 1..Len(e.ext) } |->
                    (e.ext[CHOOSE i \in 1..Len(e.ext) : e.ext[i].id = x]).b]

ListResAgrees(r, o) ==
    /\ o.ok /\ o.errs = r.errs /\ Len(o.v) = Cardinality(r.v) /\ Range(o.v) = r.v
ResAgrees(op, r, o) == IF op.op = "list" THEN ListResAgrees(r, o) ELSE r = o

SInit == /\ Init /\ h = 2 /\ loaded = FALSE /\ done = {}
         /\ TLCSet(1, 1)

Load == /\ ~loaded /\ h <= N
        /\ buckets' = ObsBuckets(Rec[h].init) /\ store' = ObsStore(Rec[h].init)
        /\ ext' = ObsExt(Rec[h].init) /\ tmp' = 0 /\ hasIndex' = Rec[h].init.hasIndex
        /\ hd' = EmptyFn /\ res' = Ok("init")
        /\ loaded' = TRUE /\ done' = {} /\ UNCHANGED h

Apply(i) == /\ loaded /\ i \in (1..Len(Rec[h].ops)) \ done
            /\ Do(Rec[h].ops[i].op)
            /\ ResAgrees(Rec[h].ops[i].op, res', Rec[h].ops[i].res)
            /\ done' = done \cup {i}
            /\ UNCHANGED <<h, loaded>>

\* all operations placed and the state reached is the one observed: the history is explained
Finish == /\ loaded /\ done = 1..Len(Rec[h].ops)
          /\ buckets = ObsBuckets(Rec[h].final)
          /\ store = ObsStore(Rec[h].final)
          /\ ext = ObsExt(Rec[h].final)
          /\ hasIndex = Rec[h].final.hasIndex
          /\ TLCSet(1, h)
          /\ buckets' = EmptyFn /\ store' = EmptyFn /\ ext' = EmptyFn /\ tmp' = 0
          /\ hasIndex' = FALSE /\ hd' = EmptyFn /\ res' = Ok("init")
          /\ h' = h + 1 /\ loaded' = FALSE /\ done' = {}

SNext == Load \/ (\E i \in 1..10 : Apply(i)) \/ Finish

SSpec == SInit /\ [][SNext]_svars

Accepted ==
    LET d == TLCGet(1) IN
    IF d = N THEN PrintT(<<"ACCEPTED", N>>)
    ELSE PrintT(<<"REJECTED", d + 1, N>>) /\ FALSE
=============================================================================
