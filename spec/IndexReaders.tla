--------------------------- MODULE IndexReaders ---------------------------
(* Unbounded (TLAPS-checked) core of C07 for lookups racing with appenders: a reader that consumes *)
(* the bucket in any number of sequential reads while any number of processes append records       *)
(* (each record ONE atomic append - the fact the system-call traces establish) returns, when it    *)
(* reaches end-of-file, exactly what the map holds AT THAT INSTANT: the lookup linearizes at its    *)
(* last read.  Any number of readers, keys, appends; reads of any size.  MC_FS decides the same     *)
(* for three processes and fifteen operation instances by permutation search.                       *)
EXTENDS Naturals, Sequences

CONSTANTS Key, Val, None, Reader
ASSUME NoneNotVal == None \notin Val

Slot == Val \cup {None}
Rec  == [key : Key, val : Slot, ok : BOOLEAN]

VARIABLES log, map, pos, got, res
vars == <<log, map, pos, got, res>>

(* the lookup of IndexRefine, on the first n records of a function f *)
IdxN(f, n, k)       == {i \in 1..n : f[i].key = k /\ f[i].ok}
IsLastN(f, n, k, i) == i \in IdxN(f, n, k) /\ \A j \in IdxN(f, n, k) : j <= i
YieldsN(f, n, k, s) == \/ IdxN(f, n, k) = {} /\ s = None
                       \/ \E i \in 1..n : IsLastN(f, n, k, i) /\ f[i].val = s
Yields(l, k, s)     == YieldsN(l, Len(l), k, s)

Init == /\ log = <<>> /\ map = [k \in Key |-> None]
        /\ pos = [r \in Reader |-> 0]
        /\ got = [r \in Reader |-> [i \in {} |-> None]]
        /\ res = [r \in Reader |-> [done |-> FALSE, key |-> None, val |-> None, now |-> None]]

AppendRec(k, s, good) ==
    /\ log' = Append(log, [key |-> k, val |-> s, ok |-> good])
    /\ map' = IF good THEN [map EXCEPT ![k] = s] ELSE map
    /\ UNCHANGED <<pos, got, res>>

(* one read system call of reader r: the next m records (m >= 1) as they are in the file NOW *)
ReadSome(r, m) ==
    /\ ~res[r].done
    /\ m \in 1..(Len(log) - pos[r])
    /\ pos' = [pos EXCEPT ![r] = pos[r] + m]
    /\ got' = [got EXCEPT ![r] = [i \in 1..(pos[r] + m) |-> IF i <= pos[r] THEN got[r][i] ELSE log[i]]]
    /\ UNCHANGED <<log, map, res>>

(* the read that returns 0 bytes: end of file; the reader answers from what it has consumed *)
Finish(r, k, s) ==
    /\ ~res[r].done
    /\ pos[r] = Len(log)
    /\ YieldsN(got[r], pos[r], k, s)
    /\ res' = [res EXCEPT ![r] = [done |-> TRUE, key |-> k, val |-> s, now |-> map[k]]]
    /\ UNCHANGED <<log, map, pos, got>>

Next == \/ \E k \in Key, s \in Slot, g \in BOOLEAN : AppendRec(k, s, g)
        \/ \E r \in Reader : \E m \in 1..(Len(log) - pos[r]) : ReadSome(r, m)
        \/ \E r \in Reader, k \in Key, s \in Slot : Finish(r, k, s)

TypeOK == /\ log \in Seq(Rec) /\ map \in [Key -> Slot]
          /\ pos \in [Reader -> Nat]
          /\ got = [r \in Reader |-> got[r]]
          /\ res = [r \in Reader |-> res[r]]
Refines == \A k \in Key : Yields(log, k, map[k])
(* what a reader holds is the prefix of the file as it is now: appends never touch it *)
PrefixSeen == \A r \in Reader : /\ pos[r] <= Len(log)
                                /\ \A i \in 1..pos[r] : got[r][i] = log[i]
(* C07 for lookups: the answer is the map's value at the instant of the final read *)
Linearized == \A r \in Reader : res[r].done => res[r].val = res[r].now
Inv == TypeOK /\ Refines /\ PrefixSeen /\ Linearized

LEMMA AppendFacts ==
  ASSUME NEW l \in Seq(Rec), NEW x \in Rec
  PROVE  /\ Append(l, x) \in Seq(Rec)
         /\ Len(Append(l, x)) = Len(l) + 1
         /\ \A i \in 1..Len(l) : Append(l, x)[i] = l[i]
         /\ Append(l, x)[Len(l) + 1] = x
  OBVIOUS

LEMMA YieldsNUnique ==
  ASSUME NEW f, NEW n \in Nat, NEW k, NEW s, NEW t, YieldsN(f, n, k, s), YieldsN(f, n, k, t)
  PROVE  s = t
  <1>1. \A i, j \in 1..n : IsLastN(f, n, k, i) /\ IsLastN(f, n, k, j) => i = j
        BY DEF IsLastN, IdxN
  <1>2. \A i \in 1..n : IsLastN(f, n, k, i) => IdxN(f, n, k) # {} BY DEF IsLastN
  <1> QED BY <1>1, <1>2 DEF YieldsN

LEMMA YieldsNExt ==
  ASSUME NEW f, NEW g, NEW n \in Nat, NEW k, NEW s, \A i \in 1..n : f[i] = g[i], YieldsN(f, n, k, s)
  PROVE  YieldsN(g, n, k, s)
  <1>1. IdxN(f, n, k) = IdxN(g, n, k) BY DEF IdxN
  <1>2. \A i \in 1..n : IsLastN(f, n, k, i) => IsLastN(g, n, k, i) /\ g[i].val = f[i].val
        BY <1>1 DEF IsLastN
  <1> QED BY <1>1, <1>2 DEF YieldsN

LEMMA AppendYields ==
  ASSUME NEW l \in Seq(Rec), NEW x \in Rec, NEW k \in Key, NEW s \in Slot, Yields(l, k, s)
  PROVE  Yields(Append(l, x), k, IF x.key = k /\ x.ok THEN x.val ELSE s)
  <1> DEFINE l2 == Append(l, x)
  <1> DEFINE n == Len(l)
  <1>0. /\ l2 \in Seq(Rec) /\ Len(l2) = n + 1 /\ n \in Nat
        /\ \A i \in 1..n : l2[i] = l[i]
        /\ l2[n + 1] = x
        BY AppendFacts
  <1>y. YieldsN(l, n, k, s) BY DEF Yields
  <1>1. CASE x.key = k /\ x.ok
    <2>1. n + 1 \in 1..(n + 1) BY <1>0
    <2>2. IsLastN(l2, n + 1, k, n + 1) BY <1>0, <1>1, <2>1 DEF IsLastN, IdxN
    <2>3. YieldsN(l2, n + 1, k, x.val) BY <1>0, <2>1, <2>2 DEF YieldsN
    <2> QED BY <1>0, <1>1, <2>3 DEF Yields
  <1>2. CASE ~(x.key = k /\ x.ok)
    <2>1. IdxN(l2, n + 1, k) = IdxN(l, n, k) BY <1>0, <1>2 DEF IdxN
    <2>2. \A i \in 1..n : IsLastN(l, n, k, i) => IsLastN(l2, n + 1, k, i) /\ l2[i].val = l[i].val
          BY <1>0, <2>1 DEF IsLastN
    <2>3. \A i \in 1..n : i \in 1..(n + 1) BY <1>0
    <2>4. YieldsN(l2, n + 1, k, s) BY <1>y, <2>1, <2>2, <2>3 DEF YieldsN
    <2> QED BY <1>0, <1>2, <2>4 DEF Yields
  <1> QED BY <1>1, <1>2

THEOREM InitInv == Init => Inv
  <1> SUFFICES ASSUME Init PROVE Inv OBVIOUS
  <1>1. TypeOK BY DEF Init, TypeOK, Slot
  <1>2. Len(log) = 0 /\ \A k \in Key : IdxN(log, 0, k) = {} BY DEF Init, IdxN
  <1>3. Refines BY <1>2 DEF Refines, Yields, YieldsN, Init
  <1>4. PrefixSeen BY <1>2 DEF PrefixSeen, Init
  <1>5. Linearized BY DEF Linearized, Init
  <1> QED BY <1>1, <1>3, <1>4, <1>5 DEF Inv

THEOREM NextInv == Inv /\ [Next]_vars => Inv'
  <1> SUFFICES ASSUME Inv, [Next]_vars PROVE Inv' OBVIOUS
  <1> USE DEF Inv, TypeOK
  <1>1. CASE UNCHANGED vars BY <1>1 DEF vars, Refines, PrefixSeen, Linearized, Yields
  <1>2. ASSUME NEW k \in Key, NEW s \in Slot, NEW g \in BOOLEAN, AppendRec(k, s, g) PROVE Inv'
    <2> DEFINE x == [key |-> k, val |-> s, ok |-> g]
    <2>1. x \in Rec /\ x.key = k /\ x.val = s /\ x.ok = g BY DEF Rec
    <2>2. /\ log' = Append(log, x) /\ map' = (IF g THEN [map EXCEPT ![k] = s] ELSE map)
          /\ pos' = pos /\ got' = got /\ res' = res
          BY <1>2 DEF AppendRec
    <2>3. /\ log' \in Seq(Rec) /\ Len(log') = Len(log) + 1 /\ Len(log) \in Nat
          /\ \A i \in 1..Len(log) : log'[i] = log[i]
          BY <2>1, <2>2, AppendFacts
    <2>4. TypeOK' BY <2>2, <2>3 DEF Slot
    <2>5. ASSUME NEW q \in Key PROVE Yields(log', q, map'[q])
      <3>1. Yields(log, q, map[q]) /\ map[q] \in Slot BY DEF Refines
      <3>2. Yields(Append(log, x), q, IF x.key = q /\ x.ok THEN x.val ELSE map[q]) BY <2>1, <3>1, AppendYields
      <3>3. map'[q] = (IF x.key = q /\ x.ok THEN x.val ELSE map[q]) BY <2>1, <2>2
      <3> QED BY <2>2, <3>2, <3>3
    <2>6. PrefixSeen' BY <2>2, <2>3 DEF PrefixSeen
    <2>7. Linearized' BY <2>2 DEF Linearized
    <2> QED BY <2>4, <2>5, <2>6, <2>7 DEF Refines
  <1>3. ASSUME NEW r \in Reader, NEW m \in 1..(Len(log) - pos[r]), ReadSome(r, m) PROVE Inv'
    <2>1. /\ m \in 1..(Len(log) - pos[r]) /\ log' = log /\ map' = map /\ res' = res
          /\ pos' = [pos EXCEPT ![r] = pos[r] + m]
          /\ got' = [got EXCEPT ![r] = [i \in 1..(pos[r] + m) |-> IF i <= pos[r] THEN got[r][i] ELSE log[i]]]
          BY <1>3 DEF ReadSome
    <2>2. Len(log) \in Nat /\ pos[r] \in Nat OBVIOUS
    <2>3. TypeOK' BY <2>1, <2>2
    <2>4. Refines' BY <2>1 DEF Refines
    <2>5. PrefixSeen'
      <3>1. ASSUME NEW q \in Reader PROVE pos'[q] <= Len(log') /\ \A i \in 1..pos'[q] : got'[q][i] = log'[i]
        <4>1. CASE q = r
          <5>1. pos'[r] = pos[r] + m /\ pos[r] + m <= Len(log) BY <2>1, <2>2
          <5>2. got'[r] = [i \in 1..(pos[r] + m) |-> IF i <= pos[r] THEN got[r][i] ELSE log[i]] BY <2>1
          <5>3. \A i \in 1..pos[r] : got[r][i] = log[i] BY DEF PrefixSeen
          <5> QED BY <4>1, <5>1, <5>2, <5>3, <2>1, <2>2
        <4>2. CASE q # r
          <5>1. pos'[q] = pos[q] /\ got'[q] = got[q] BY <2>1, <4>2
          <5> QED BY <5>1, <2>1 DEF PrefixSeen
        <4> QED BY <4>1, <4>2
      <3> QED BY <3>1 DEF PrefixSeen
    <2>6. Linearized' BY <2>1 DEF Linearized
    <2> QED BY <2>3, <2>4, <2>5, <2>6
  <1>4. ASSUME NEW r \in Reader, NEW k \in Key, NEW s \in Slot, Finish(r, k, s) PROVE Inv'
    <2>1. /\ pos[r] = Len(log) /\ YieldsN(got[r], pos[r], k, s)
          /\ res' = [res EXCEPT ![r] = [done |-> TRUE, key |-> k, val |-> s, now |-> map[k]]]
          /\ log' = log /\ map' = map /\ pos' = pos /\ got' = got
          BY <1>4 DEF Finish
    <2>2. Len(log) \in Nat OBVIOUS
    <2>3. \A i \in 1..Len(log) : got[r][i] = log[i] BY <2>1 DEF PrefixSeen
    <2>4. YieldsN(log, Len(log), k, s) BY <2>1, <2>2, <2>3, YieldsNExt
    <2>5. YieldsN(log, Len(log), k, map[k]) BY DEF Refines, Yields
    <2>6. s = map[k] BY <2>2, <2>4, <2>5, YieldsNUnique
    <2>7. Linearized'
      <3>1. ASSUME NEW q \in Reader, res'[q].done PROVE res'[q].val = res'[q].now
        <4>1. CASE q = r BY <4>1, <2>1, <2>6
        <4>2. CASE q # r BY <4>2, <2>1, <3>1 DEF Linearized
        <4> QED BY <4>1, <4>2
      <3> QED BY <3>1 DEF Linearized
    <2> QED BY <2>1, <2>7 DEF Refines, PrefixSeen
  <1> QED BY <1>1, <1>2, <1>3, <1>4 DEF Next
=============================================================================
