----------------------------- MODULE CacacheFS -----------------------------
(***************************************************************************)
(* System-call refinement of the contract: every operation is the sequence *)
(* of VISIBLE file-system calls the library issues (observed with strace / *)
(* the lock-step tracer, DESIGN.md 1.2), one action per effect-carrying     *)
(* call, executed by independent processes without any lock.  The           *)
(* environment can kill all processes between or inside calls (Crash, with  *)
(* torn writes), fail a call with an errno (Fault) or cut a write short.    *)
(*                                                                          *)
(* Checked by TLC for small constants (MC_FS*.cfg):                         *)
(*   ContentAtomic   (C03)  only complete data under a content address      *)
(*   NoPartialRecord (C07)  no partial index record without a crash         *)
(*   Resolvable      (C04)  a visible entry has its content (index after    *)
(*                          content), also after any crash                  *)
(*   CrashAtomic     (C04)  after a crash every key reads old or new        *)
(*   Serializable    (C07)  results + final state = some serial order       *)
(*   Truthful        (C13)  under faults: an error or a truthful success    *)
(*   Usable          (C04/C13) operations started after a crash or fault    *)
(*                          complete normally                               *)
(* mkdir / stat / close calls carry no abstract effect and are elided       *)
(* (they are stuttering steps of this specification).                       *)
(***************************************************************************)
EXTENDS Naturals, Sequences, FiniteSets, TLC

CONSTANTS Procs,       \* process identifiers
          Keys, Datas, \* small alphabets; a data value is its own address (one algorithm)
          OpSet,       \* operations a process may start: records [op, k?, d?]
          MaxStarts,   \* how many operations may be started in total
          AllowCrash,  \* BOOLEAN
          MaxFaults,   \* number of injected faults
          IsEmptyData(_), \* is this data value the empty byte string (a fresh temp file is then complete)
          NoFile       \* model value

VARIABLES cf,          \* Datas -> NoFile | bytes (a data id; "part" = incomplete bytes)
          tmpf,        \* Procs -> NoFile | [d, n]  temp file of p: first n chunks of d (2 chunks = whole)
          bex,         \* Keys -> BOOLEAN  bucket file exists
          bk,          \* Keys -> Seq(line)  line = [t |-> "rec", k, v, by] | [t |-> "torn"]
          pc, op, res, \* per process
          seen,        \* Procs -> Seq(line): bucket bytes read so far
          fdc,         \* Procs -> bytes of the content inode opened
          acc,         \* Procs -> listing accumulated so far (set of [k, v])
          todo,        \* Procs -> keys still to visit by a listing
          crashed, nfaults, nstarts,
          log          \* ghost: operations in completion order with results (for Serializable)

vars == <<cf, tmpf, bex, bk, pc, op, res, seen, fdc, acc, todo, crashed, nfaults, nstarts, log>>

TOMB == "TOMB"
Rec(k, v, p) == [t |-> "rec", k |-> k, v |-> v, by |-> p]
Torn == [t |-> "torn"]

RECURSIVE Fold(_, _, _)
Fold(ls, k, a) == IF ls = <<>> THEN a
                  ELSE LET x == Head(ls) IN
                       Fold(Tail(ls), k, IF x.t = "rec" /\ x.k = k THEN x.v ELSE a)
\* "NONE" = not found; a tombstone clears
LookupLines(ls, k) == LET v == Fold(ls, k, "NONE") IN IF v = TOMB THEN "NONE" ELSE v
Lookup(k) == IF bex[k] THEN LookupLines(bk[k], k) ELSE "NONE"

Ok(v)  == [ok |-> TRUE, v |-> v]
Err(e) == [ok |-> FALSE, e |-> e]

Running(p) == pc[p] \notin {"idle", "done", "dead"}

Init == /\ cf = [d \in Datas |-> NoFile] /\ tmpf = [p \in Procs |-> NoFile]
        /\ bex = [k \in Keys |-> FALSE] /\ bk = [k \in Keys |-> <<>>]
        /\ pc = [p \in Procs |-> "idle"] /\ op = [p \in Procs |-> [op |-> "none"]]
        /\ res = [p \in Procs |-> Ok("none")]
        /\ seen = [p \in Procs |-> <<>>] /\ fdc = [p \in Procs |-> NoFile]
        /\ acc = [p \in Procs |-> {}] /\ todo = [p \in Procs |-> {}]
        /\ crashed = FALSE /\ nfaults = 0 /\ nstarts = 0 /\ log = <<>>

Finish(p, r) == /\ pc' = [pc EXCEPT ![p] = "done"] /\ res' = [res EXCEPT ![p] = r]
                /\ log' = Append(log, [p |-> p, op |-> op[p], res |-> r])

FirstPc(o) == CASE o.op \in {"write", "write_hash"} -> "w_create"
                [] o.op \in {"read", "metadata"} -> "r_open"
                [] o.op = "read_hash" -> "r_openc"
                [] o.op = "remove" -> "x_open"
                [] o.op = "remove_hash" -> "xh_unlink"
                [] o.op = "exists" -> "e_stat"
                [] o.op = "list" -> "l_walk"
                [] o.op = "link_to" -> "k_sym"

Start(p, o) ==
    /\ pc[p] = "idle" /\ nstarts < MaxStarts
    /\ nstarts' = nstarts + 1
    /\ op' = [op EXCEPT ![p] = o]
    /\ pc' = [pc EXCEPT ![p] = FirstPc(o)]
    /\ seen' = [seen EXCEPT ![p] = <<>>]
    /\ todo' = [todo EXCEPT ![p] = Keys] /\ acc' = [acc EXCEPT ![p] = {}]
    /\ UNCHANGED <<cf, tmpf, bex, bk, res, fdc, crashed, nfaults, log>>

(* ---- writer ------------------------------------------------------------------ *)

CreateTmp(p) ==        \* openat(tmp/.tmpXXXX, O_CREAT|O_EXCL)
    /\ pc[p] = "w_create"
    /\ tmpf' = [tmpf EXCEPT ![p] = [d |-> op[p].d, n |-> IF IsEmptyData(op[p].d) THEN 2 ELSE 0]]
    /\ pc' = [pc EXCEPT ![p] = "w_data"]
    /\ UNCHANGED <<cf, bex, bk, op, res, seen, fdc, acc, todo, crashed, nfaults, nstarts, log>>

\* tmpf[p].n: 0 = empty, 1 = some of the data, 2 = all of it
WriteTmp(p) ==         \* write(tmpfd, chunk) (or a copy into the memory map): any number of chunks
    /\ pc[p] = "w_data" /\ tmpf[p].n < 2
    /\ \E m \in {1, 2} : tmpf' = [tmpf EXCEPT ![p].n = m]
    /\ UNCHANGED <<cf, bex, bk, pc, op, res, seen, fdc, acc, todo, crashed, nfaults, nstarts, log>>

Publish(p) ==          \* renameat(tmp, content path): linearization point 1
    /\ pc[p] = "w_data" /\ tmpf[p].n = 2        \* only after the last chunk has been written
    /\ cf' = [cf EXCEPT ![op[p].d] = IF tmpf[p].n = 2 THEN op[p].d ELSE "part"]
    /\ tmpf' = [tmpf EXCEPT ![p] = NoFile]
    /\ IF "reject" \in DOMAIN op[p]
       THEN \* declared size / integrity not met: checked after publication, nothing is indexed
            Finish(p, Err("Rejected")) /\ UNCHANGED <<bex, bk>>
       ELSE IF op[p].op = "write_hash"
       THEN Finish(p, Ok(op[p].d)) /\ UNCHANGED <<bex, bk>>
       ELSE pc' = [pc EXCEPT ![p] = "w_open"] /\ UNCHANGED <<bex, bk, res, log>>
    /\ UNCHANGED <<op, seen, fdc, acc, todo, crashed, nfaults, nstarts>>

\* link_to(k, target holding d): the content address becomes a symbolic link to the target (no
\* temp file, no copy); EEXIST with something at the address is accepted; then the index record
SymlinkContent(p) ==   \* symlinkat(target, content path): linearization point 1 of a link
    /\ pc[p] = "k_sym"
    /\ cf' = [cf EXCEPT ![op[p].d] = IF @ = NoFile THEN "link" ELSE @]
    /\ pc' = [pc EXCEPT ![p] = "w_open"]
    /\ UNCHANGED <<tmpf, bex, bk, op, res, seen, fdc, acc, todo, crashed, nfaults, nstarts, log>>

OpenBucketW(p) ==      \* openat(bucket, O_WRONLY|O_CREAT|O_APPEND) creates an empty file
    /\ pc[p] \in {"w_open", "x_open"}
    /\ bex' = [bex EXCEPT ![op[p].k] = TRUE]
    /\ pc' = [pc EXCEPT ![p] = IF pc[p] = "w_open" THEN "w_app" ELSE "x_app"]
    /\ UNCHANGED <<cf, tmpf, bk, op, res, seen, fdc, acc, todo, crashed, nfaults, nstarts, log>>

AppendRecord(p) ==     \* ONE write(bucketfd, "\n<sha>\t<json>"): linearization point 2
    /\ pc[p] \in {"w_app", "x_app"}
    /\ bk' = [bk EXCEPT ![op[p].k] = Append(@, Rec(op[p].k, IF pc[p] = "w_app" THEN op[p].d ELSE TOMB, p))]
    /\ Finish(p, Ok(IF pc[p] = "w_app" THEN op[p].d ELSE "unit"))
    /\ UNCHANGED <<cf, tmpf, bex, op, seen, fdc, acc, todo, crashed, nfaults, nstarts>>

(* ---- readers ------------------------------------------------------------------- *)

OpenBucketR(p) ==      \* openat(bucket, O_RDONLY); ENOENT = no entries
    /\ pc[p] = "r_open"
    /\ IF bex[op[p].k]
       THEN pc' = [pc EXCEPT ![p] = "r_rd"] /\ UNCHANGED <<res, log>>
       ELSE Finish(p, IF op[p].op = "metadata" THEN Ok("NONE") ELSE Err("EntryNotFound"))
    /\ UNCHANGED <<cf, tmpf, bex, bk, op, seen, fdc, acc, todo, crashed, nfaults, nstarts>>

ReadBucket(p) ==       \* read(): returns what is new; the loop ends when a read returns nothing
    /\ pc[p] = "r_rd"
    /\ LET k == op[p].k
           v == LookupLines(seen[p], k) IN
       IF seen[p] # bk[k]
       THEN seen' = [seen EXCEPT ![p] = bk[k]] /\ UNCHANGED <<pc, op, res, log>>
       ELSE IF op[p].op = "metadata" THEN Finish(p, Ok(v)) /\ UNCHANGED <<seen, op>>
       ELSE IF v = "NONE" THEN Finish(p, Err("EntryNotFound")) /\ UNCHANGED <<seen, op>>
       ELSE /\ pc' = [pc EXCEPT ![p] = "r_openc"]
            /\ op' = [op EXCEPT ![p] = [op |-> "read", k |-> k, d |-> v]]
            /\ UNCHANGED <<seen, res, log>>
    /\ UNCHANGED <<cf, tmpf, bex, bk, fdc, acc, todo, crashed, nfaults, nstarts>>

OpenContent(p) ==      \* openat(content path): the inode opened is read to the end
    /\ pc[p] = "r_openc"
    /\ IF cf[op[p].d] = NoFile
       THEN Finish(p, Err("IoNotFound")) /\ UNCHANGED fdc
       ELSE /\ fdc' = [fdc EXCEPT ![p] = cf[op[p].d]]
            /\ pc' = [pc EXCEPT ![p] = "r_rdc"] /\ UNCHANGED <<res, log>>
    /\ UNCHANGED <<cf, tmpf, bex, bk, op, seen, acc, todo, crashed, nfaults, nstarts>>

ReadContent(p) ==      \* read()...; digest compared with the address
    /\ pc[p] = "r_rdc"
    /\ Finish(p, IF fdc[p] \in {op[p].d, "link"} THEN Ok(op[p].d) ELSE Err("Integrity"))
    /\ UNCHANGED <<cf, tmpf, bex, bk, op, seen, fdc, acc, todo, crashed, nfaults, nstarts>>

UnlinkContent(p) ==    \* remove_hash
    /\ pc[p] = "xh_unlink"
    /\ IF cf[op[p].d] = NoFile THEN Finish(p, Err("IoNotFound")) /\ UNCHANGED cf
       ELSE cf' = [cf EXCEPT ![op[p].d] = NoFile] /\ Finish(p, Ok("unit"))
    /\ UNCHANGED <<tmpf, bex, bk, op, seen, fdc, acc, todo, crashed, nfaults, nstarts>>

StatContent(p) ==      \* exists
    /\ pc[p] = "e_stat"
    /\ Finish(p, Ok(cf[op[p].d] # NoFile))
    /\ UNCHANGED <<cf, tmpf, bex, bk, op, seen, fdc, acc, todo, crashed, nfaults, nstarts>>

ListingOf(ls) == { [k |-> k, v |-> LookupLines(ls, k)] : k \in { x \in Keys : LookupLines(ls, x) # "NONE" } }

WalkVisit(p) ==        \* list: one bucket per step, in any order
    /\ pc[p] = "l_walk"
    /\ IF todo[p] = {}
       THEN Finish(p, Ok(acc[p])) /\ UNCHANGED <<acc, todo>>
       ELSE \E k \in todo[p] :
              /\ todo' = [todo EXCEPT ![p] = @ \ {k}]
              /\ acc' = [acc EXCEPT ![p] = @ \cup (IF bex[k] THEN ListingOf(bk[k]) ELSE {})]
              /\ UNCHANGED <<pc, res, log>>
    /\ UNCHANGED <<cf, tmpf, bex, bk, op, seen, fdc, crashed, nfaults, nstarts>>

(* ---- environment --------------------------------------------------------------- *)

\* kill -9 of everything between two calls; a write in flight may be torn: an index append
\* leaves a fragment that parses as an invalid line (or nothing), a temp write any prefix
Crash ==
    /\ AllowCrash /\ ~crashed /\ \E p \in Procs : Running(p)
    /\ crashed' = TRUE
    /\ pc' = [p \in Procs |-> IF Running(p) THEN "dead" ELSE pc[p]]
    /\ \E torn \in SUBSET { p \in Procs : pc[p] \in {"w_app", "x_app"} } :
          bk' = [k \in Keys |-> IF \E p \in torn : op[p].k = k THEN Append(bk[k], Torn) ELSE bk[k]]
    /\ UNCHANGED <<cf, tmpf, bex, op, res, seen, fdc, acc, todo, nfaults, nstarts, log>>

\* the pending call of p fails with an errno; the operation takes its error path.  A writer
\* whose temp file exists unlinks it (Drop); "rename failed but destination exists" is accepted
Fault(p) ==
    /\ nfaults < MaxFaults /\ Running(p)
    /\ nfaults' = nfaults + 1
    /\ IF pc[p] = "w_data" /\ tmpf[p].n = 2 /\ cf[op[p].d] # NoFile
       THEN \* persist failed, destination exists: go on as if published
            /\ tmpf' = [tmpf EXCEPT ![p] = NoFile]
            /\ IF op[p].op = "write_hash" THEN Finish(p, Ok(op[p].d))
               ELSE pc' = [pc EXCEPT ![p] = "w_open"] /\ UNCHANGED <<res, log>>
            /\ UNCHANGED bk
       ELSE /\ tmpf' = [tmpf EXCEPT ![p] = NoFile]       \* temp file removed on drop
            /\ Finish(p, Err("Io"))
            \* a short write followed by failure leaves a fragment in the bucket
            /\ \/ UNCHANGED bk
               \/ /\ pc[p] \in {"w_app", "x_app"}
                  /\ bk' = [bk EXCEPT ![op[p].k] = Append(@, Torn)]
    /\ UNCHANGED <<cf, bex, op, seen, fdc, acc, todo, crashed, nstarts>>

Next == \/ \E p \in Procs : \E o \in OpSet : Start(p, o)
        \/ \E p \in Procs : \/ CreateTmp(p) \/ WriteTmp(p) \/ Publish(p) \/ OpenBucketW(p)
                            \/ AppendRecord(p) \/ OpenBucketR(p) \/ ReadBucket(p) \/ OpenContent(p)
                            \/ ReadContent(p) \/ UnlinkContent(p) \/ StatContent(p) \/ WalkVisit(p)
                            \/ SymlinkContent(p) \/ Fault(p)
        \/ Crash

Spec == Init /\ [][Next]_vars
FairSpec == Spec /\ \A p \in Procs : WF_vars(CreateTmp(p) \/ WriteTmp(p) \/ Publish(p) \/ OpenBucketW(p)
                            \/ AppendRecord(p) \/ OpenBucketR(p) \/ ReadBucket(p) \/ OpenContent(p)
                            \/ ReadContent(p) \/ UnlinkContent(p) \/ StatContent(p) \/ WalkVisit(p)
                            \/ SymlinkContent(p))

(* ---- properties ------------------------------------------------------------------ *)

\* ("link": a symbolic link to an external file holding d - complete by construction)
ContentAtomic == \A d \in Datas : cf[d] \in {NoFile, d, "link"}

NoPartialRecord ==
    (~crashed /\ nfaults = 0) => \A k \in Keys : \A i \in 1..Len(bk[k]) : bk[k][i].t = "rec"

NoRemoveHash == \A o \in OpSet : o.op # "remove_hash"

\* index after content: whenever an entry is visible its content is completely stored
Resolvable == NoRemoveHash => \A k \in Keys : Lookup(k) # "NONE" => cf[Lookup(k)] \in {Lookup(k), "link"}

\* temp files belong to live (or killed) writers only
TmpPrivate == \A p \in Procs : tmpf[p] # NoFile => pc[p] \in {"w_data", "dead"}

(* serial semantics of the contract, as pure functions on [m: Keys -> value|"NONE", c: SUBSET Datas] *)
SeqApply(st, o) ==
    CASE o.op \in {"write", "link_to"}
                              -> [st |-> [m |-> [st.m EXCEPT ![o.k] = o.d], c |-> st.c \cup {o.d}], r |-> Ok(o.d)]
      [] o.op = "write_hash"  -> [st |-> [m |-> st.m, c |-> st.c \cup {o.d}], r |-> Ok(o.d)]
      [] o.op = "remove"      -> [st |-> [m |-> [st.m EXCEPT ![o.k] = "NONE"], c |-> st.c], r |-> Ok("unit")]
      [] o.op = "remove_hash" -> IF o.d \in st.c THEN [st |-> [m |-> st.m, c |-> st.c \ {o.d}], r |-> Ok("unit")]
                                 ELSE [st |-> st, r |-> Err("IoNotFound")]
      [] o.op = "metadata"    -> [st |-> st, r |-> Ok(st.m[o.k])]
      [] o.op = "read"        -> [st |-> st, r |-> IF st.m[o.k] = "NONE" THEN Err("EntryNotFound")
                                                   ELSE IF st.m[o.k] \in st.c THEN Ok(st.m[o.k])
                                                   ELSE Err("IoNotFound")]
      [] o.op = "read_hash"   -> [st |-> st, r |-> IF o.d \in st.c THEN Ok(o.d) ELSE Err("IoNotFound")]
      [] o.op = "exists"      -> [st |-> st, r |-> Ok(o.d \in st.c)]
      [] o.op = "list"        -> [st |-> st, r |-> Ok({ [k |-> k, v |-> st.m[k]] : k \in { x \in Keys : st.m[x] # "NONE" } })]

RECURSIVE RunSerial(_, _)
\* executes the sequence of log entries serially; TRUE iff every result is reproduced, returning state
RunSerial(seq, st) ==
    IF seq = <<>> THEN [ok |-> TRUE, st |-> st]
    ELSE LET x == SeqApply(st, Head(seq).op) IN
         IF x.r # Head(seq).res THEN [ok |-> FALSE, st |-> st]
         ELSE RunSerial(Tail(seq), x.st)

Perms(n) == { f \in [1..n -> 1..n] : \A i, j \in 1..n : i # j => f[i] # f[j] }
AbsNow == [m |-> [k \in Keys |-> Lookup(k)], c |-> { d \in Datas : cf[d] # NoFile }]
Empty == [m |-> [k \in Keys |-> "NONE"], c |-> {}]
Quiescent == \A p \in Procs : ~Running(p)

\* C07: at quiescence (no crash, no fault) results and final state are those of some serial order
Serializable ==
    (Quiescent /\ ~crashed /\ nfaults = 0 /\ Len(log) > 0) =>
       \E f \in Perms(Len(log)) :
          LET x == RunSerial([i \in 1..Len(log) |-> log[f[i]]], Empty) IN
          x.ok /\ x.st = AbsNow

\* C13: a finished operation that met faults reports an error or a truthful success
Truthful ==
    \A i \in 1..Len(log) :
       LET e == log[i] IN
       (e.res.ok /\ e.op.op \in {"write", "write_hash", "link_to"}) =>
          \* at the moment it completed the data was stored: the content is only ever removed again
          \* by a remove_hash (excluded when checking this)
          (NoRemoveHash => cf[e.op.d] \in {e.op.d, "link"})

\* C04: after a crash every key maps to a value some started operation was writing, or to what
\* it had (here: "NONE"), never to anything else, and the entry resolves
CrashAtomic ==
    crashed => \A k \in Keys :
        \/ Lookup(k) = "NONE"
        \/ \E p \in Procs : op[p].op \in {"write", "link_to"} /\ op[p].k = k /\ op[p].d = Lookup(k)

\* liveness: every started operation terminates (no retry loop without progress)
Terminates == <>[](\A p \in Procs : ~Running(p))
=============================================================================
