----------------------------- MODULE MC_FSBulk -----------------------------
EXTENDS CacacheFSBulk

MCIsEmptyB(d) == FALSE
MCOpsBulk ==
    { [op |-> "write", k |-> k, d |-> d] : k \in Keys, d \in Datas }
    \cup { [op |-> "write_hash", d |-> d] : d \in Datas }
    \cup { [op |-> "read", k |-> k] : k \in Keys }
    \cup { [op |-> "metadata", k |-> k] : k \in Keys }
    \cup { [op |-> "remove", k |-> k] : k \in Keys }
    \cup { [op |-> "remove_fully", k |-> k] : k \in Keys }
    \cup { [op |-> "clear"] }
=============================================================================
