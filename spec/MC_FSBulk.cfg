CONSTANTS
  Procs = {p1, p2, p3}
  Keys = {"k1", "k2"}
  Datas = {"d1", "d2"}
  OpSet <- MCOpsBulk
  IsEmptyData <- MCIsEmptyB
  MaxStarts = 3
  AllowCrash = FALSE
  MaxFaults = 0
  NoFile = NoFile
SPECIFICATION BSpec
INVARIANTS ContentAtomic NoPartialRecord WritersReturn
PROPERTIES OtherBucketsUntouched ClearedOnlyWhatWasSeen
CHECK_DEADLOCK FALSE
