------------------------------- MODULE Layout -------------------------------
(***************************************************************************)
(* The on-disk layout of cacache (index-v5 / content-v2), at byte level.   *)
(* Strings are sequences of byte values.  The digests themselves are       *)
(* supplied as facts by an independent implementation (hashlib); this      *)
(* module states how paths and record lines are built from them.           *)
(***************************************************************************)
EXTENDS Naturals, Sequences

NLb  == 10
TABb == 9

IsHexDigit(c) == (c >= 48 /\ c <= 57) \/ (c >= 97 /\ c <= 102)       \* 0-9 a-f (lower case)
IsHex(s, n)   == Len(s) = n /\ \A i \in 1..Len(s) : IsHexDigit(s[i])

\* hex digest split 2 / 2 / rest
Split22(h) == << SubSeq(h, 1, 2), SubSeq(h, 3, 4), SubSeq(h, 5, Len(h)) >>

\* path components below the cache root
BucketPath(indexDir, sha1hex)      == << indexDir >> \o Split22(sha1hex)
ContentPath(contentDir, algo, hex) == << contentDir, algo >> \o Split22(hex)

\* one index record as appended: newline, hex SHA-256 of the JSON text, tab, the JSON text,
\* and the JSON text is one line
IsRecordLine(bytes, sha256hex, json) ==
    /\ IsHex(sha256hex, 64)
    /\ bytes = <<NLb>> \o sha256hex \o <<TABb>> \o json
    /\ \A i \in 1..Len(json) : json[i] # NLb

RecordFields == << "key", "integrity", "time", "size", "metadata", "raw_metadata" >>

\* digest length in hex digits per algorithm
HexLen(algo) == CASE algo = "sha1" -> 40 [] algo = "sha256" -> 64 [] algo = "sha384" -> 96
                  [] algo = "sha512" -> 128 [] algo = "xxh3" -> 32 [] OTHER -> 0
=============================================================================
