--------------------------- MODULE IndexFormat ---------------------------
(***************************************************************************)
(* Token-level model of one cacache index bucket file.                     *)
(*                                                                         *)
(* A bucket file is a sequence of TOKENS.  A record r that was appended    *)
(* intact is the four tokens  NL, H(r), TAB, B(r)  (newline, the hex       *)
(* SHA-256 of r's JSON text, tab, the JSON text).  Damage replaces tokens  *)
(* by the damage tokens PH(r)/PB(r) (a proper prefix of the checksum or    *)
(* of the body), JUNK (valid UTF-8 without NL/TAB), BAD8 (bytes that are   *)
(* not UTF-8) and CR.  Every concrete byte string has exactly one token    *)
(* image under the lexer alpha of /verif/vf/refimpl.py, so a verdict per   *)
(* token file is a verdict per byte file.                                  *)
(*                                                                         *)
(* The module defines the parser (what a reader must make of a file), the  *)
(* two different algorithms the library uses on top of it (left fold for   *)
(* lookup, reverse + first-per-key for listing), the environment actions   *)
(* (append, torn append, every damage class) and the properties            *)
(*   Contained  (C06)   ListAgrees (C10)   LookupLatest (C05)              *)
(*   TornAtomic (C04: a torn append never changes any lookup, and the next *)
(*               append is effective).                                     *)
(***************************************************************************)
EXTENDS Naturals, Sequences, FiniteSets, TLC

CONSTANTS Keys,        \* keys whose records may be in this bucket (incl. foreign ones)
          Vals,        \* abstract payloads of a record (address+metadata), not NULLV
          NULLV,       \* payload of a tombstone (integrity: null)
          NONE,        \* lookup result "not found"
          MaxAppends,  \* bound on appended records
          MaxDamage,   \* bound on damage operations
          StopAtBad8   \* TRUE: the deviant reader that stops at the first non-UTF-8 line

VARIABLES file,        \* Seq(Token)
          nrec,        \* number of records appended so far (ids are 1..nrec)
          recs,        \* id -> [key, val]   what was appended, by id
          intact,      \* ids whose own frame and separating newlines were never touched
          ndmg,        \* damage operations so far
          lastop       \* name of the last action (observation only; hidden by VIEW)

vars == <<file, nrec, recs, intact, ndmg, lastop>>
view == <<file, nrec, recs, intact, ndmg>>

NL   == [t |-> "NL"]
TAB  == [t |-> "TAB"]
CR   == [t |-> "CR"]
JUNK == [t |-> "JUNK"]
BAD8 == [t |-> "BAD8"]
H(i)  == [t |-> "H",  r |-> i]
B(i)  == [t |-> "B",  r |-> i]
PH(i) == [t |-> "PH", r |-> i]
PB(i) == [t |-> "PB", r |-> i]

Frame(i) == <<NL, H(i), TAB, B(i)>>

(* ---- parser ----------------------------------------------------------- *)

RECURSIVE SplitNL(_)
SplitNL(s) == IF s = <<>> THEN << <<>> >>
              ELSE LET rest == SplitNL(Tail(s)) IN
                   IF Head(s) = NL THEN << <<>> >> \o rest
                   ELSE << <<Head(s)>> \o rest[1] >> \o Tail(rest)

\* a reader strips one trailing CR from a line (BufRead::lines and both async Lines do)
StripCR(l) == IF Len(l) > 0 /\ l[Len(l)] = CR THEN SubSeq(l, 1, Len(l) - 1) ELSE l

IsUtf8(l) == \A i \in 1..Len(l) : l[i] # BAD8

ValidLine(l0) == LET l == StripCR(l0) IN
                 /\ IsUtf8(l0)
                 /\ Len(l) = 3
                 /\ l[1].t = "H" /\ l[2] = TAB /\ l[3].t = "B"
                 /\ l[1].r = l[3].r

RecOf(l0) == StripCR(l0)[3].r

Lines(f) == SplitNL(f)

\* the contract: every invalid line is skipped on its own
ParseSkip(f) == LET v == SelectSeq(Lines(f), ValidLine)
                IN  [i \in 1..Len(v) |-> RecOf(v[i])]

\* the deviation: reading stops at the first line that is not UTF-8
RECURSIVE UntilBad8(_)
UntilBad8(ls) == IF ls = <<>> THEN <<>>
                 ELSE IF ~IsUtf8(Head(ls)) THEN <<>>
                 ELSE <<Head(ls)>> \o UntilBad8(Tail(ls))

ParseStop(f) == LET v == SelectSeq(UntilBad8(Lines(f)), ValidLine)
                IN  [i \in 1..Len(v) |-> RecOf(v[i])]

Parse(f) == IF StopAtBad8 THEN ParseStop(f) ELSE ParseSkip(f)

(* ---- the two algorithms on top of the parser --------------------------- *)

RECURSIVE Fold(_, _, _, _)
\* index::find : left fold, last matching record wins, a tombstone clears
Fold(ids, k, acc, rs) == IF ids = <<>> THEN acc
                         ELSE LET r == rs[Head(ids)] IN
                              Fold(Tail(ids), k,
                                   IF r.key = k THEN (IF r.val = NULLV THEN NONE ELSE Head(ids))
                                   ELSE acc, rs)

LookupR(f, k, rs) == Fold(Parse(f), k, NONE, rs)
Lookup(f, k) == LookupR(f, k, recs)

Reverse(s) == [i \in 1..Len(s) |-> s[Len(s) + 1 - i]]

RECURSIVE Dedup(_, _)
\* index::ls : reversed, first record per key is kept, tombstones dropped afterwards
Dedup(ids, seen) == IF ids = <<>> THEN {}
                    ELSE LET r == recs[Head(ids)] IN
                         IF r.key \in seen THEN Dedup(Tail(ids), seen)
                         ELSE (IF r.val = NULLV THEN {} ELSE {Head(ids)})
                              \cup Dedup(Tail(ids), seen \cup {r.key})

Listing(f) == Dedup(Reverse(Parse(f)), {})

(* ---- actions ------------------------------------------------------------ *)

Init == /\ file = <<>> /\ nrec = 0 /\ recs = <<>> /\ intact = {} /\ ndmg = 0
        /\ lastop = "init"

AppendRec(k, v) ==
    /\ nrec < MaxAppends
    /\ nrec' = nrec + 1
    /\ recs' = Append(recs, [key |-> k, val |-> v])
    /\ file' = file \o Frame(nrec + 1)
    /\ intact' = intact \cup {nrec + 1}
    /\ UNCHANGED ndmg
    /\ lastop' = "append"

\* a crash in the middle of the single write(2) of a record leaves a prefix of it:
\*   1: "\n"   2: "\n" + part of checksum   3: "\n" + checksum
\*   4: "\n" + checksum + "\t"   5: ... + part of the body
TornFrame(i, c) == CASE c = 1 -> <<NL>>
                     [] c = 2 -> <<NL, PH(i)>>
                     [] c = 3 -> <<NL, H(i)>>
                     [] c = 4 -> <<NL, H(i), TAB>>
                     [] c = 5 -> <<NL, H(i), TAB, PB(i)>>

TornAppend(k, v, c) ==
    /\ nrec < MaxAppends
    /\ nrec' = nrec + 1
    /\ recs' = Append(recs, [key |-> k, val |-> v])
    /\ file' = file \o TornFrame(nrec + 1, c)
    /\ UNCHANGED <<intact, ndmg>>
    /\ lastop' = "torn"

\* the record ids whose frame or separating newline contains position p
\* (position p is token index in the file).  A record's "own" tokens are
\* its leading NL, H, TAB, B, and the NL that follows it (the next record's
\* leading NL), because losing that newline fuses the two lines.
OwnerIds(f, p) ==
    { i \in 1..nrec :
        \E q \in 1..Len(f) :
           /\ f[q] = H(i)
           /\ \/ p \in (q-1)..(q+2)                         \* NL? H TAB B
              \/ (p = q + 3) }                               \* the NL after the body

\* replacing the token at p by a (possibly empty) sequence of tokens
Splice(f, p, new) == SubSeq(f, 1, p - 1) \o new \o SubSeq(f, p + 1, Len(f))

DamageToken(p, new, name) ==
    /\ ndmg < MaxDamage
    /\ p \in 1..Len(file)
    /\ file' = Splice(file, p, new)
    /\ intact' = intact \ OwnerIds(file, p)
    /\ ndmg' = ndmg + 1
    /\ UNCHANGED <<nrec, recs>>
    /\ lastop' = name

\* what one damaged token can become, by kind (bit flips, overwrites, truncation inside
\* the token, a newline or tab flipped into it, non-UTF-8 bytes)
Replacements(tok) ==
    CASE tok.t = "NL"  -> { <<>>, <<JUNK>>, <<BAD8>>, <<TAB>> }
      [] tok.t = "TAB" -> { <<>>, <<JUNK>>, <<BAD8>>, <<NL>> }
      [] tok.t = "H"   -> { <<>>, <<JUNK>>, <<BAD8>>, <<PH(tok.r)>>,
                            <<PH(tok.r), NL, JUNK>>, <<PH(tok.r), TAB, JUNK>> }
      [] tok.t = "B"   -> { <<>>, <<JUNK>>, <<BAD8>>, <<PB(tok.r)>>,
                            <<PB(tok.r), NL, JUNK>>, <<PB(tok.r), TAB, JUNK>>, <<B(tok.r), CR>>,
                            <<B(tok.r), JUNK>> }
      [] OTHER         -> { <<>>, <<JUNK>>, <<BAD8>>, <<NL>> }

Damage == \E p \in 1..Len(file) : \E new \in Replacements(file[p]) :
              DamageToken(p, new, "damage")

\* a garbage line (or fragment) inserted at a line boundary; position p is
\* the index of an NL token (or Len+1 = end of file).  Inserting *before* an NL adds
\* a whole extra line and touches no record: "<garbage-line>" is NL followed by junk.
InsertLine == \E p \in 1..(Len(file) + 1) : \E g \in { <<NL, JUNK>>, <<NL, BAD8>>, <<NL>>,
                                                       <<NL, JUNK, TAB, JUNK>> } :
    /\ ndmg < MaxDamage
    /\ (IF p = Len(file) + 1 THEN TRUE ELSE file[p] = NL)
    /\ file' = SubSeq(file, 1, p - 1) \o g \o SubSeq(file, p, Len(file))
    /\ ndmg' = ndmg + 1
    /\ UNCHANGED <<nrec, recs, intact>>
    /\ lastop' = "insert"

\* truncation at any token boundary (a cut *inside* a token is Damage to PH/PB + Truncate)
Truncate == \E n \in 0..(Len(file) - 1) :
    /\ ndmg < MaxDamage
    /\ file' = SubSeq(file, 1, n)
    /\ intact' = { i \in intact : \E q \in 1..n : file[q] = B(i) }
    /\ ndmg' = ndmg + 1
    /\ UNCHANGED <<nrec, recs>>
    /\ lastop' = "truncate"

\* a whole valid frame duplicated at the end of the file (replayed fragment)
Duplicate == \E i \in 1..nrec :
    /\ ndmg < MaxDamage
    /\ file' = file \o Frame(i)
    /\ ndmg' = ndmg + 1
    /\ UNCHANGED <<nrec, recs, intact>>
    /\ lastop' = "duplicate"

Next == \/ \E k \in Keys : \E v \in Vals \cup {NULLV} : AppendRec(k, v)
        \/ \E k \in Keys : \E v \in Vals \cup {NULLV} : \E c \in 1..5 : TornAppend(k, v, c)
        \/ Damage
        \/ InsertLine
        \/ Truncate
        \/ Duplicate

Spec == Init /\ [][Next]_vars

(* ---- properties --------------------------------------------------------- *)

TypeOK == /\ nrec \in 0..MaxAppends /\ ndmg \in 0..MaxDamage /\ intact \subseteq 1..nrec

Parsed == Parse(file)
Occurs(i) == \E j \in 1..Len(Parsed) : Parsed[j] = i

\* C06 (i)  every record whose frame and newlines were never touched is effective
\* C06 (ii) nothing is ever returned that was not appended verbatim: by construction of the
\*          tokens a line validates only if checksum and body are intact and of one record,
\*          so every parsed id is in 1..nrec and denotes recs[id]
\* C06 (iii) intact records keep their append order
Contained ==
    /\ \A i \in intact : Occurs(i)
    /\ \A j \in 1..Len(Parsed) : Parsed[j] \in 1..nrec
    /\ \A i, j \in intact : i < j =>
          \E a, b \in 1..Len(Parsed) : a < b /\ Parsed[a] = i /\ Parsed[b] = j

\* C10: listing == lookup, on every file, damaged or not
ListAgrees ==
    /\ \A k \in Keys : (Lookup(file, k) # NONE) <=> (\E i \in Listing(file) : recs[i].key = k)
    /\ \A i \in Listing(file) : Lookup(file, recs[i].key) = i
    /\ \A i, j \in Listing(file) : recs[i].key = recs[j].key => i = j

\* C05 on an undamaged file: lookup is the latest append for the key
LookupLatest ==
    (ndmg = 0 /\ intact = 1..nrec) =>
       \A k \in Keys :
          LET mine == { i \in 1..nrec : recs[i].key = k } IN
          IF mine = {} THEN Lookup(file, k) = NONE
          ELSE LET m == CHOOSE i \in mine : \A j \in mine : j <= i IN
               Lookup(file, k) = (IF recs[m].val = NULLV THEN NONE ELSE m)

(* ---- link to the unbounded statement (IndexRefine.tla, checked by TLAPS) ---------------------- *)
(* The records the parser accepts, in file order, ARE a log in the sense of IndexRefine; the fold *)
(* of index::find over them yields what IndexRefine!Yields defines (last record of the key wins,  *)
(* a tombstone clears).  TLC checks this identification of the two definitions in every reachable *)
(* state of the token-level model (damaged files included); TLAPS proves, for logs of ANY length  *)
(* over ANY key set, that Yields refines a plain map under append / tombstone / junk lines and    *)
(* that invalidating one record changes no other key's answer.                                    *)
AbsVal(i) == IF recs[i].val = NULLV THEN NONE ELSE i
AbsLog == [j \in 1..Len(Parsed) |-> [key |-> recs[Parsed[j]].key, val |-> AbsVal(Parsed[j]), ok |-> TRUE]]
IR == INSTANCE IndexRefine WITH Key <- Keys, Val <- 1..MaxAppends, None <- NONE,
                                log <- AbsLog, map <- [k \in Keys |-> Lookup(file, k)]
RefinesAbstract == IR!TypeOK /\ IR!Refines

\* C04: a torn append changes no lookup; C04/C06: an append is always effective, whatever
\* the file looked like before (the leading newline terminates any fragment)
TornAtomic ==
    [][ /\ (lastop' = "torn") => \A k \in Keys : LookupR(file', k, recs') = Lookup(file, k)
        /\ (lastop' = "append") =>
              /\ LookupR(file', recs'[nrec'].key, recs') =
                    (IF recs'[nrec'].val = NULLV THEN NONE ELSE nrec')
              /\ \A k \in Keys \ {recs'[nrec'].key} : LookupR(file', k, recs') = Lookup(file, k)
      ]_vars
=============================================================================
