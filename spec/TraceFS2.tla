------------------------------ MODULE TraceFS2 ------------------------------
(***************************************************************************)
(* L2 binding: system-call level traces against the ACTIONS of             *)
(* CacacheFS.tla (TraceFS.tla checks invariants and step rules on the      *)
(* observed projections; this module checks that the effect-carrying calls *)
(* the library issues ARE steps of the system-call specification, in an    *)
(* order its program counters allow, and that the specification's disk     *)
(* state then equals the observed projection - a refinement check).        *)
(*                                                                         *)
(* Event -> action:                                                        *)
(*   spawn                                   Start(p, o)                   *)
(*   openat(tmp/.., O_CREAT|O_EXCL) ok       CreateTmp(p)                  *)
(*   write/pwrite on the temp file           WriteTmp(p)                   *)
(*   renameat(tmp -> content) ok             Publish(p)                    *)
(*   openat(bucket, O_CREAT|O_APPEND) ok     OpenBucketW(p)                *)
(*   write on the bucket (whole record)      AppendRecord(p)               *)
(*   unlink(content) by remove_hash          UnlinkContent(p)              *)
(*   remove_fully: open(bucket) / unlink(content) / unlink(bucket)         *)
(*                     RfLookup / RfUnlinkContent / RfUnlinkBucket         *)
(*   clear: first call / every unlink / result   ClearScan/ClearStep/ClearDone *)
(*   symlinkat(target, content) by link_to   SymlinkContent(p)             *)
(*   a faulted / failing effect call         Fault(p)                      *)
(*   crash                                   Crash                         *)
(*   anything that changes nothing abstract  Noise (mkdir, stat, reads,    *)
(*                                           fallocate, mmap, close ...)   *)
(* The fullness of p's temp file (0 empty, 1 partial, 2 complete) is an    *)
(* observation carried by every event of p (user-space copies into a       *)
(* memory map are not system calls); the ghost adopts it, and Publish      *)
(* still requires it to be 2.  Readers are not bound here (their results   *)
(* are decided by TraceFS / SerialAPI): they finish with a skip.           *)
(* A rejection is reported with the line; the runner classifies it.        *)
(***************************************************************************)
EXTENDS CacacheFSBulk, Json, IOUtils

Rec2 == ndJsonDeserialize(IOEnv.TRACE)
N2   == Len(Rec2)
Hdr2 == Rec2[1]

RangeOf(s) == { s[i] : i \in 1..Len(s) }
TKeys  == RangeOf(Hdr2.keys)
TDatas == RangeOf(Hdr2.datas)
TProcs == RangeOf(Hdr2.procs)
TOps   == RangeOf(Hdr2.ops)
TIsEmpty(d) == d = "empty"

VARIABLE l
E == Rec2[l]

t2vars == <<bvars, l>>

(* ---- observed projection in the vocabulary of CacacheFS ---------------- *)

\* content: data id -> bytes id (one address per data value in these runs)
ObsCf(s) == [d \in Datas |->
               IF \E i \in 1..Len(s.store) : s.store[i].d = d
               THEN LET i == CHOOSE i \in 1..Len(s.store) : s.store[i].d = d IN
                    IF s.store[i].c.k = "file" THEN s.store[i].c.b ELSE "link"
               ELSE NoFile]

AbsLine(ln) == IF ln.t = "rec"
               THEN [t |-> "rec", k |-> ln.r.key, v |-> IF ln.r.sri = <<>> THEN TOMB ELSE ln.r.sri[1].d]
               ELSE Torn
DropFirstEmpty(ls) == IF Len(ls) > 0 /\ ls[1].t = "empty" THEN Tail(ls) ELSE ls
ObsLines(s, k) == IF \E i \in 1..Len(s.buckets) : s.buckets[i].key = k
                  THEN LET ls == DropFirstEmpty((s.buckets[CHOOSE i \in 1..Len(s.buckets) : s.buckets[i].key = k]).lines)
                       IN [j \in 1..Len(ls) |-> AbsLine(ls[j])]
                  ELSE <<>>
ObsBex(s, k) == \E i \in 1..Len(s.buckets) : s.buckets[i].key = k

NoBy(ls) == [j \in 1..Len(ls) |-> IF ls[j].t = "rec" THEN [t |-> "rec", k |-> ls[j].k, v |-> ls[j].v] ELSE Torn]

\* the specification's disk state after the step equals what is observed
DiskAgrees(s) ==
    /\ \A d \in Datas : cf'[d] = ObsCf(s)[d]
    /\ \A k \in Keys : bex'[k] = ObsBex(s, k)
    /\ \A k \in Keys : NoBy(bk'[k]) = ObsLines(s, k)

TmpAgrees(p, n) ==
    IF n = 0 - 1 THEN tmpf'[p] = NoFile
    ELSE tmpf'[p] # NoFile /\ tmpf'[p].n = n

(* ---- steps ---------------------------------------------------------------- *)

T2Init == BInit /\ l = 2

\* begin: a warm cache is adopted as the starting disk state of the specification
T2Begin ==
    /\ l <= N2 /\ E.ev = "begin"
    /\ cf' = ObsCf(E.snap)
    /\ bex' = [k \in Keys |-> ObsBex(E.snap, k)]
    /\ bk' = [k \in Keys |-> [j \in 1..Len(ObsLines(E.snap, k)) |->
                 IF ObsLines(E.snap, k)[j].t = "rec"
                 THEN Rec(ObsLines(E.snap, k)[j].k, ObsLines(E.snap, k)[j].v, "warm") ELSE Torn]]
    /\ tmpf' = [p \in Procs |-> NoFile]
    /\ pc' = [p \in Procs |-> "idle"] /\ op' = [p \in Procs |-> [op |-> "none"]]
    /\ res' = [p \in Procs |-> Ok("none")]
    /\ seen' = [p \in Procs |-> <<>>] /\ fdc' = [p \in Procs |-> NoFile]
    /\ acc' = [p \in Procs |-> {}] /\ todo' = [p \in Procs |-> {}]
    /\ crashed' = FALSE /\ nfaults' = 0 /\ nstarts' = 0 /\ log' = <<>>
    /\ bgen' = [k \in Keys |-> 0] /\ wgen' = [p \in Procs |-> 0]
    /\ tgone' = [p \in Procs |-> FALSE]
    /\ csnap' = [p \in Procs |-> [c |-> {}, b |-> {}, t |-> {}]]
    /\ l' = l + 1

T2Spawn ==
    /\ l <= N2 /\ E.ev = "spawn"
    /\ BStart(E.p, E.o)
    /\ l' = l + 1

IsReaderOp(o) == o.op \in {"read", "read_hash", "metadata", "exists", "list"}

\* an event without abstract effect: the disk state of the specification stays, the temp
\* file fullness of the process is adopted
Noise(p, e) ==
    /\ UNCHANGED <<cf, bex, bk, pc, op, res, seen, fdc, acc, todo, crashed, nfaults, nstarts, log>>
    /\ NewUnch
    /\ tmpf' = [tmpf EXCEPT ![p] = IF e.tmpfull = 0 - 1 THEN NoFile
                                    ELSE IF tmpf[p] = NoFile THEN [d |-> op[p].d, n |-> e.tmpfull]
                                    ELSE [tmpf[p] EXCEPT !.n = e.tmpfull]]

Named(p, e) ==
    \/ (e.cls = "create_tmp" /\ CreateTmp(p) /\ NewUnch)
    \/ (e.cls = "write_tmp" /\ WriteTmp(p) /\ NewUnch)
    \/ (e.cls = "publish" /\ BPublish(p))
    \/ (e.cls = "open_bucket_w" /\ BOpenBucketW(p))
    \/ (e.cls = "append" /\ BAppendRecord(p))
    \/ (e.cls = "unlink_content" /\ \/ (UnlinkContent(p) /\ NewUnch)
                                    \/ RfUnlinkContent(p)
                                    \/ ClearStep(p))
    \/ (e.cls = "unlink_bucket" /\ (RfUnlinkBucket(p) \/ ClearStep(p)))
    \/ (e.cls = "symlink" /\ SymlinkContent(p) /\ NewUnch)
    \/ (e.cls = "failed_effect" /\ Fault(p) /\ NewUnch)

\* (the multi-step bulk deletions of CacacheFSBulk: remove_fully looks the key up when it opens the
\* bucket for reading - RfLookup; clear takes stock of the cache with its first visible call -
\* ClearScan; every unlink after that is a ClearStep; the result line is ClearDone)

T2Sys ==
    /\ l <= N2 /\ E.ev = "sys"
    /\ IF E.cls = "noise" /\ pc[E.p] = "c_scan"
       THEN ClearScan(E.p)
       ELSE IF E.cls = "noise" /\ pc[E.p] = "rf_look" /\ E.area = "index" /\ E.name \in {"openat", "open", "openat2"}
       THEN RfLookup(E.p)
       ELSE IF E.cls = "noise"
       THEN Noise(E.p, E)
       ELSE Named(E.p, E) /\ (IF E.cls \in {"failed_effect", "unlink_content", "unlink_bucket"} THEN TRUE
                               ELSE TmpAgrees(E.p, E.tmpfull))
    /\ DiskAgrees(E.snap)
    /\ l' = l + 1

\* readers (not bound here) and operations that returned after an error path end with the
\* logged result; a writer must already have finished through its own last action
T2Result ==
    /\ l <= N2 /\ E.ev = "result"
    /\ IF pc[E.p] = "c_del" /\ E.ok
       THEN ClearDone(E.p)
       ELSE IF pc[E.p] = "done"
       THEN /\ res[E.p].ok = E.ok
            /\ UNCHANGED bvars
       ELSE /\ IsReaderOp(op[E.p]) \/ ~E.ok          \* a reader, or an error return
            /\ pc' = [pc EXCEPT ![E.p] = "done"]
            /\ res' = [res EXCEPT ![E.p] = IF E.ok THEN Ok("skipped") ELSE Err("logged")]
            /\ tmpf' = [tmpf EXCEPT ![E.p] = NoFile]
            /\ UNCHANGED <<cf, bex, bk, op, seen, fdc, acc, todo, crashed, nfaults, nstarts, log>>
            /\ NewUnch
    /\ l' = l + 1

T2Crash ==
    /\ l <= N2 /\ E.ev = "crash"
    /\ Crash /\ NewUnch
    /\ DiskAgrees(E.snap)
    /\ l' = l + 1

T2End ==
    /\ l <= N2 /\ E.ev = "end"
    /\ UNCHANGED bvars
    /\ l' = l + 1

T2Next == T2Begin \/ T2Spawn \/ T2Sys \/ T2Result \/ T2Crash \/ T2End
T2Spec == T2Init /\ [][T2Next]_t2vars

Accepted2 ==
    LET d == TLCGet("stats").diameter IN
    IF d = N2 THEN PrintT(<<"ACCEPTED", N2>>)
    ELSE PrintT(<<"REJECTED", d + 1, N2>>) /\ FALSE
=============================================================================
