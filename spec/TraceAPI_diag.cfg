SPECIFICATION TSpec
CONSTANTS
  LenOf <- TraceLenOf
  ReflinkOK <- TraceReflink
  BucketOf <- TraceBucketOf
POSTCONDITION Accepted
CHECK_DEADLOCK FALSE
