SPECIFICATION TSpec
CONSTANTS
  LenOf <- TraceLenOf
  ReflinkOK <- TraceReflink
  BucketOf <- TraceBucketOf
INVARIANTS TmpOK ListOK
POSTCONDITION Accepted
CHECK_DEADLOCK FALSE
