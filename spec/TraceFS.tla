------------------------------ MODULE TraceFS ------------------------------
(***************************************************************************)
(* Validation of system-call level traces recorded under the lock-step     *)
(* tracer (sysched).  The variables of Cacache.tla hold the OBSERVED       *)
(* projection of the cache directory after every visible system call (all  *)
(* processes are stopped when it is taken, so it is a consistent global    *)
(* state).  TLC evaluates                                                  *)
(*   - state invariants in every observed state: ContentAtomic (C03),      *)
(*     NoPartialRecord (C07), RecordsResolvable (C04, C13)                 *)
(*   - step rules between consecutive states: what one call of one         *)
(*     process may change (append-only buckets, publication of complete    *)
(*     content only, nothing changed by failing or read-only calls, only   *)
(*     destination/own files touched) (C03 C07 C13 C15)                    *)
(*   - crash rules: what a kill / torn write may leave (C03 C04)           *)
(*   - end-of-run rules per mode: all-or-nothing after a crash (C04),      *)
(*     error-or-truthful-success after an injected fault (C13),            *)
(*     read-only operations never mutate, nothing outside the root (C15).  *)
(* Lines: begin, spawn, sys, outside, hang, result, crash, end, reset.     *)
(***************************************************************************)
EXTENDS Cacache, Json, IOUtils

Rec == ndJsonDeserialize(IOEnv.TRACE)
N   == Len(Rec)
Hdr == Rec[1]

FSLenOf(id)   == Hdr.lens[id]
FSBucketOf(k) == k

VARIABLES l,         \* next line
          pre,       \* projection at "begin": [buckets, store, ext, tmp, hasIndex]
          ops,       \* process -> contract-level operation (from spawn lines)
          results,   \* process -> abstract result (from result lines)
          crashed,   \* a crash line has been seen in this run
          faults,    \* number of injected faults so far in this run
          resolv     \* this run has no operation that removes content by address, so every
                     \* visible entry must resolve (begin line)

fvars == <<vars, l, pre, ops, results, crashed, faults, resolv>>

Ev == Rec[l]
Range(s) == { s[i] : i \in 1..Len(s) }
IsPrefix(s, t) == Len(s) <= Len(t) /\ SubSeq(t, 1, Len(s)) = s

ObsBuckets(e) == [k \in { e.buckets[i].key : i \in 1..Len(e.buckets) } |->
                    (e.buckets[CHOOSE i \in 1..Len(e.buckets) : e.buckets[i].key = k]).lines]
ObsStore(e)   == [a \in { [a |-> e.store[i].a, d |-> e.store[i].d] : i \in 1..Len(e.store) } |->
                    (e.store[CHOOSE i \in 1..Len(e.store) :
                                e.store[i].a = a.a /\ e.store[i].d = a.d]).c]
ObsExt(e)     == [x \in { e.ext[i].id : i \in 1..Len(e.ext) } |->
                    (e.ext[CHOOSE i \in 1..Len(e.ext) : e.ext[i].id = x]).b]

Adopt(s) == /\ buckets' = ObsBuckets(s) /\ store' = ObsStore(s) /\ ext' = ObsExt(s)
            /\ tmp' = s.tmp /\ hasIndex' = s.hasIndex
            /\ UNCHANGED <<hd, res>>

Snap == [buckets |-> buckets, store |-> store, ext |-> ext, tmp |-> tmp, hasIndex |-> hasIndex]

ReadOnlyOps == {"read", "metadata", "exists", "list"}

\* in diagnostic mode (header diag = TRUE) a failing rule is printed and validation goes on,
\* so that every broken rule of a trace is reported with its name
Chk(name, c) == IF Hdr.diag THEN (IF c THEN TRUE ELSE PrintT(<<"RULE", name, l>>)) ELSE c

(* ---- state invariants (every observed state) ------------------------------- *)

\* C03: every file under a content address holds the complete data of that address
ContentAtomic ==
    \A a \in DOMAIN store : store[a].k = "file" => store[a].b = a.d

\* C07: without a crash no bucket ever shows anything but complete records (the first line
\* of a bucket is empty: a record starts with its own newline)
GoodLine(ls, i) == ls[i].t = "rec" \/ (i = 1 /\ ls[i].t = "empty")
NoPartialRecord ==
    (~crashed /\ faults = 0) =>
       \A k \in DOMAIN buckets : \A i \in 1..Len(buckets[k]) : GoodLine(buckets[k], i)

\* C04 / C13: whenever an entry is visible its content is completely stored (programs that
\* remove content by address switch this off in the header)
RecordsResolvable ==
    (Hdr.resolvable /\ resolv) =>
      \A k \in DOMAIN buckets :
         LET e == LookupIn(buckets[k], k) IN
         e # <<>> => BytesAt(Addr(e[1].sri)) = Addr(e[1].sri).d

(* ---- step rules ---------------------------------------------------------------- *)

BucketStepOK(p, e) ==
    /\ \A k \in DOMAIN buckets' :
          IF k \in DOMAIN buckets
          THEN \/ buckets'[k] = buckets[k]
               \/ /\ Len(buckets'[k]) = Len(buckets[k]) + 1            \* exactly one more line
                  /\ IsPrefix(buckets[k], buckets'[k])                 \* append only
                  /\ \/ buckets'[k][Len(buckets'[k])].t = "rec"        \* a whole record, one write
                     \/ e.action = "short"                            \* (the kernel cut the write short)
               \/ /\ faults > 0                                        \* the rest of a write cut short
                  /\ Len(buckets'[k]) = Len(buckets[k]) /\ Len(buckets[k]) > 0
                  /\ IsPrefix(SubSeq(buckets[k], 1, Len(buckets[k]) - 1), buckets'[k])
          ELSE \/ buckets'[k] = <<EmptyLine>>                          \* created by open(O_CREAT)
               \/ (Len(buckets'[k]) = 2 /\ buckets'[k][1] = EmptyLine /\ buckets'[k][2].t = "rec")
    /\ \A k \in DOMAIN buckets \ DOMAIN buckets' :
          ops[p].op \in {"remove_fully", "clear"}                      \* only bulk deletions unlink buckets

StoreStepOK(p, e) ==
    /\ \A a \in DOMAIN store' :
          (a \notin DOMAIN store \/ store'[a] # store[a]) =>
             /\ ops[p].op \in {"write", "link_to"}                      \* only writers publish
             /\ (store'[a].k = "file" => store'[a].b = a.d)            \* complete data only
    /\ \A a \in DOMAIN store \ DOMAIN store' :
          ops[p].op \in {"remove_hash", "remove_fully", "clear"}

ExtStepOK(p, e) ==
    \A x \in (DOMAIN ext) \cup (DOMAIN ext') :
       (x \notin DOMAIN ext \/ x \notin DOMAIN ext' \/ ext[x] # ext'[x]) =>
          (ops[p].op = "extract" /\ ops[p].to = x)

StepOK(e) ==
    LET p == e.p IN
    /\ Chk("BucketStep", BucketStepOK(p, e))
    /\ Chk("StoreStep", StoreStepOK(p, e))
    /\ Chk("ExtStep", ExtStepOK(p, e))
    \* a call that cannot mutate, or that failed, changes nothing (C13, C15)
    /\ Chk("FailedOrReadChangesNothing",
           (e.mut = 0 \/ e.ret < 0) => <<buckets', store', ext', hasIndex'>> = <<buckets, store, ext, hasIndex>>)
    \* read-only operations issue no mutating call at all (C15)
    /\ Chk("ReadOnlyOpMutates", (ops[p].op \in ReadOnlyOps) => e.mut = 0)
    \* every touched path is inside the cache directory or is the given destination (C15)
    /\ Chk("PathOutsideAreas", e.area # "other")
    \* something else directly under the cache root is touched only by clear (which empties it)
    /\ Chk("ForeignEntryTouched", (e.area = "root_other" /\ e.mut = 1) => ops[p].op = "clear")
    /\ Chk("ExtTouched", (e.area = "ext" /\ e.mut = 1) => ops[p].op = "extract")
    \* the state invariants, evaluated on the new state (they are also INVARIANTs of the
    \* normal configuration; repeated here so that diagnostic mode can name them)
    /\ Chk("ContentAtomic", \A a \in DOMAIN store' : store'[a].k = "file" => store'[a].b = a.d)
    /\ Chk("NoPartialRecord", (~crashed /\ faults = 0 /\ ~e.faulted /\ e.action # "short") => \A k \in DOMAIN buckets' :
                                  \A i \in 1..Len(buckets'[k]) : GoodLine(buckets'[k], i))

(* ---- crash rules ------------------------------------------------------------------ *)

\* after a kill the directory is what the last step left; a torn write may in addition have
\* left a prefix of its data: in a bucket one more line (whole record, or a fragment that
\* reads as an invalid line), in the temp area anything (it is private)
CrashOK(e) ==
    /\ store' = store /\ ext' = ext
    /\ \A k \in DOMAIN buckets' :
          IF k \in DOMAIN buckets
          THEN \/ buckets'[k] = buckets[k]
               \/ /\ e.torn # <<>>
                  /\ Len(buckets'[k]) = Len(buckets[k]) + 1
                  /\ IsPrefix(buckets[k], buckets'[k])
          ELSE FALSE
    /\ DOMAIN buckets \subseteq DOMAIN buckets'

(* ---- end-of-run rules ---------------------------------------------------------------- *)

PreLookup(k) == LookupB(pre.buckets, k)

\* the entry a keyed write of data d under algorithm a is making current
IsTarget(o, e) == /\ e # <<>>
                  /\ e[1].key = o.key
                  /\ e[1].sri = << [a |-> o.algo, d |-> o.data] >>
                  /\ e[1].size = ToString(FSLenOf(o.data))
                  /\ e[1].meta = (IF Has(o, "meta") THEN o.meta ELSE "null") /\ e[1].raw = "none"

\* the entry a keyed link_to of the external file o.target is making current (sha256 of its bytes)
IsLinkTarget(o, e) == /\ e # <<>> /\ o.target \in DOMAIN ext
                      /\ e[1].key = o.key
                      /\ e[1].sri = << [a |-> "sha256", d |-> ext[o.target]] >>
                      /\ e[1].size = ToString(FSLenOf(ext[o.target]))
                      /\ e[1].meta = "null" /\ e[1].raw = "none"

KeysOfRun == { k \in DOMAIN buckets \cup DOMAIN pre.buckets : TRUE }
MutatedKey(k) == \E p \in DOMAIN ops : Has(ops[p], "key") /\ ops[p].key = k
                                       /\ ops[p].op \in {"write", "remove", "remove_fully", "index_insert", "link_to"}

\* C04: all-or-nothing after a crash, per key; other keys untouched
CrashAtomic ==
    \A k \in KeysOfRun :
       IF ~MutatedKey(k) THEN Lookup(k) = PreLookup(k)
       ELSE \/ Lookup(k) = PreLookup(k)
            \/ \E p \in DOMAIN ops :
                  /\ Has(ops[p], "key") /\ ops[p].key = k
                  /\ \/ (ops[p].op = "write" /\ IsTarget(ops[p], Lookup(k)))
                     \/ (ops[p].op = "link_to" /\ IsLinkTarget(ops[p], Lookup(k)))
                     \/ (ops[p].op \in {"remove", "remove_fully"} /\ Lookup(k) = <<>>)

\* C13: a call that met an injected fault returns an error or a truthful success
Truthful(p) ==
    LET o == ops[p]
        r == results[p] IN
    IF ~r.ok THEN r.e \notin {"PANIC", "HANG", "DIED"}
    ELSE CASE o.op = "write" ->
                /\ BytesAt([a |-> o.algo, d |-> o.data]) = o.data
                /\ Has(o, "key") => IsTarget(o, Lookup(o.key))
           [] o.op = "link_to" ->
                Has(o, "key") => IsLinkTarget(o, Lookup(o.key))
           [] o.op = "read" ->
                (Has(o, "key") /\ PreLookup(o.key) # <<>>) =>
                    \E i \in 1..Len(PreLookup(o.key)[1].sri) : r.v = PreLookup(o.key)[1].sri[i].d
           [] o.op = "remove" -> Lookup(o.key) = <<>>
           [] o.op = "metadata" -> r.v = PreLookup(o.key)
           [] o.op = "list" ->
                /\ Range(r.v) \subseteq ListAllB(pre.buckets)
                /\ (r.errs = 0) => (Range(r.v) = ListAllB(pre.buckets) /\ pre.hasIndex)
           [] o.op = "extract" ->
                LET t == IF Has(o, "key") THEN PreLookup(o.key)[1].sri ELSE o.sri IN
                /\ o.to \in DOMAIN ext
                /\ \E i \in 1..Len(t) : ext[o.to] = t[i].d
           [] o.op = "remove_hash" -> Addr(o.sri) \notin DOMAIN store
           [] OTHER -> TRUE

OthersUntouched ==
    \A k \in KeysOfRun : (~MutatedKey(k)) => Lookup(k) = PreLookup(k)

Returned(r) == IF r.ok THEN TRUE ELSE r.e \notin {"PANIC", "HANG", "DIED"}

EndOK ==
    /\ Chk("CrashAtomic", (Hdr.mode \in {"crash", "fault"}) => CrashAtomic)
    /\ Chk("Truthful", (Hdr.mode = "fault") => \A p \in DOMAIN results : Truthful(p))
    /\ Chk("OthersUntouched", (Hdr.mode = "fault") => OthersUntouched)
    /\ Chk("Returned", (Hdr.mode # "crash") => \A p \in DOMAIN results : Returned(results[p]))
    /\ Chk("RecordsResolvableEnd", RecordsResolvable)
    /\ Chk("ContentAtomicEnd", ContentAtomic)

(* ---- the trace specification ------------------------------------------------------------ *)

TInit == /\ Init /\ l = 2 /\ pre = [buckets |-> EmptyFn] /\ ops = EmptyFn /\ results = EmptyFn
         /\ crashed = FALSE /\ faults = 0 /\ resolv = TRUE

TBegin == /\ l <= N /\ Ev.ev = "begin"
          /\ Adopt(Ev.snap)
          /\ pre' = [buckets |-> ObsBuckets(Ev.snap), store |-> ObsStore(Ev.snap),
                     hasIndex |-> Ev.snap.hasIndex, tmp |-> Ev.snap.tmp]
          /\ ops' = EmptyFn /\ results' = EmptyFn /\ crashed' = FALSE /\ faults' = 0
          /\ resolv' = Ev.resolvable
          /\ l' = l + 1

TSpawn == /\ l <= N /\ Ev.ev = "spawn"
          /\ ops' = Upd(ops, Ev.p, Ev.op)
          /\ UNCHANGED <<vars, pre, results, crashed, faults, resolv>>
          /\ l' = l + 1

TSys == /\ l <= N /\ Ev.ev = "sys"
        /\ Adopt(Ev.snap)
        /\ StepOK(Ev)
        /\ Chk("RecordsResolvable", RecordsResolvable)
        /\ faults' = IF Ev.faulted \/ Ev.action = "short" THEN faults + 1 ELSE faults
        /\ UNCHANGED <<pre, ops, results, crashed, resolv>>
        /\ l' = l + 1

\* a mutating path-taking call outside the cache directory and the destination: never allowed
TOutside == /\ l <= N /\ Ev.ev = "outside"
            /\ Chk("OutsideMutation", FALSE)
            /\ UNCHANGED <<vars, pre, ops, results, crashed, faults, resolv>>
            /\ l' = l + 1

THang == /\ l <= N /\ Ev.ev = "hang"
         /\ Chk("Hang", FALSE)
         /\ UNCHANGED <<vars, pre, ops, results, crashed, faults, resolv>>
         /\ l' = l + 1

TResult == /\ l <= N /\ Ev.ev = "result"
           /\ results' = Upd(results, Ev.p, Ev.res)
           /\ UNCHANGED <<vars, pre, ops, crashed, faults, resolv>>
           /\ l' = l + 1

TCrash == /\ l <= N /\ Ev.ev = "crash"
          /\ Adopt(Ev.snap)
          /\ Chk("CrashLeft", CrashOK(Ev))
          /\ crashed' = TRUE
          /\ UNCHANGED <<pre, ops, results, faults, resolv>>
          /\ l' = l + 1

TEnd == /\ l <= N /\ Ev.ev = "end"
        /\ Adopt(Ev.snap)
        /\ Chk("EndStable", <<buckets', store', ext'>> = <<buckets, store, ext>>)
        \* C14: once every call has returned and every process is gone, no temp file of theirs
        \* remains - whether the calls succeeded, were rejected or met an injected error (excused:
        \* the removal of the temp file itself was made to fail, or a process did not finish)
        /\ Chk("TmpLeft", (Hdr.mode # "crash" /\ ~Ev.tmpx /\ "tmp" \in DOMAIN pre) => Ev.snap.tmp <= pre.tmp)
        /\ EndOK
        /\ UNCHANGED <<pre, ops, results, crashed, faults, resolv>>
        /\ l' = l + 1

TNext == TBegin \/ TSpawn \/ TSys \/ TOutside \/ THang \/ TResult \/ TCrash \/ TEnd

TSpec == TInit /\ [][TNext]_fvars

Accepted ==
    LET d == TLCGet("stats").diameter IN
    IF d = N THEN PrintT(<<"ACCEPTED", N>>)
    ELSE PrintT(<<"REJECTED", d + 1, N>>) /\ FALSE
=============================================================================
