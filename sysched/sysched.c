// sysched: ptrace lock-step tracer for cacache processes.
//
// A co-process controlled over stdin/stdout (one command line in, one JSON line out).
// It runs N traced children (one-shot cdrv drivers) and holds every thread at the ENTRY of
// each "visible" system call: a file-system call whose path or descriptor lies under one
// of the watched roots.  The controller decides what happens to a held call:
//
//   spawn <i> <stdout-file> <argv0> <arg1> ...   (arguments are %XX-escaped, space separated)
//   step <i>            execute the held call of process i, run i to its next visible call
//   fault <i> <errno>   skip the held call and make it return -errno, then as step
//   short <i> <n>       shrink the byte count of the held write to n, execute, then as step
//   torn <i> <n>        shrink the count to n, execute that one call, then SIGKILL everything
//   kill                SIGKILL every child (crash between two calls)
//   run <i>             let process i run to completion without holding anything any more
//   quit
//
// Replies: {"p":i,"done":{...}|null,"at":{...}|null,"exited":code|null,"hang":bool,
//           "outside":[...]}   where "at" describes the next held call and "outside" lists
// mutating path-taking calls seen outside the watched roots (never held, only reported).
//
// Runtime noise (futex, epoll, loader, /proc, cgroup probes) is passed through.
#define _GNU_SOURCE
#include <errno.h>
#include <fcntl.h>
#include <limits.h>
#include <signal.h>
#include <stdint.h>
#include <stdio.h>
#include <stdlib.h>
#include <string.h>
#include <sys/ptrace.h>
#include <sys/syscall.h>
#include <sys/types.h>
#include <sys/uio.h>
#include <sys/user.h>
#include <sys/wait.h>
#include <time.h>
#include <unistd.h>
#include <linux/ptrace.h>

#define MAXP 8
#define MAXT 256
#define MAXROOT 8
#define WATCHDOG_MS 20000
#define EMU_OK 100000          /* "faulting" value meaning: the skipped call returns 0 */
#define FICLONE_REQ 0x40049409UL

struct thr {
  pid_t tid;
  int proc;         // process index
  int held;         // stopped at entry of a visible call, not yet released
  uint64_t held_seq;
  int stepping;     // released for exactly its held call; waiting for the exit stop
  int faulting;     // errno to inject at the exit stop (0 = none)
  int alive;
  char at[1600];    // JSON description of the held call
};

static struct thr T[MAXT];
static int nT = 0;
static pid_t procpid[MAXP];
static int procalive[MAXP];
static int procexit[MAXP];
static int procfree[MAXP];   // "run": no holding any more
static char *roots[MAXROOT];
static int nroots = 0;
static uint64_t seq = 0;
static char outside[16384];
static size_t outside_len = 0;

static long long now_ms(void) {
  struct timespec ts;
  clock_gettime(CLOCK_MONOTONIC, &ts);
  return (long long)ts.tv_sec * 1000 + ts.tv_nsec / 1000000;
}

static struct thr *find_thr(pid_t tid) {
  for (int i = 0; i < nT; i++)
    if (T[i].tid == tid && T[i].alive) return &T[i];
  return NULL;
}

static int tgid_of(pid_t tid) {
  char p[64], line[256];
  snprintf(p, sizeof p, "/proc/%d/status", tid);
  FILE *f = fopen(p, "r");
  if (!f) return -1;
  int tg = -1;
  while (fgets(line, sizeof line, f))
    if (sscanf(line, "Tgid: %d", &tg) == 1) break;
  fclose(f);
  return tg;
}

static struct thr *add_thr(pid_t tid, int proc) {
  for (int i = 0; i < nT; i++)
    if (!T[i].alive) {
      memset(&T[i], 0, sizeof T[i]);
      T[i].tid = tid; T[i].proc = proc; T[i].alive = 1;
      return &T[i];
    }
  if (nT >= MAXT) { fprintf(stderr, "sysched: too many threads\n"); exit(3); }
  memset(&T[nT], 0, sizeof T[nT]);
  T[nT].tid = tid; T[nT].proc = proc; T[nT].alive = 1;
  return &T[nT++];
}

static int read_str(pid_t tid, uint64_t addr, char *buf, size_t n) {
  if (!addr) { buf[0] = 0; return -1; }
  size_t got = 0;
  while (got < n - 1) {
    struct iovec l = {buf + got, 1}, r = {(void *)(addr + got), 1};
    // read in small chunks not crossing a page
    size_t chunk = 256 - ((addr + got) & 255);
    if (chunk > n - 1 - got) chunk = n - 1 - got;
    l.iov_len = r.iov_len = chunk;
    ssize_t k = process_vm_readv(tid, &l, 1, &r, 1, 0);
    if (k <= 0) break;
    for (ssize_t j = 0; j < k; j++)
      if (buf[got + j] == 0) return (int)(got + j);
    got += k;
  }
  buf[got] = 0;
  return (int)got;
}

static int under_root(const char *path) {
  for (int i = 0; i < nroots; i++) {
    size_t n = strlen(roots[i]);
    if (strncmp(path, roots[i], n) == 0 && (path[n] == 0 || path[n] == '/')) return 1;
  }
  return 0;
}

static int fd_path(pid_t tid, int fd, char *buf, size_t n) {
  char p[64];
  snprintf(p, sizeof p, "/proc/%d/fd/%d", tid, fd);
  ssize_t k = readlink(p, buf, n - 1);
  if (k < 0) { buf[0] = 0; return -1; }
  buf[k] = 0;
  return 0;
}

static void abs_path(pid_t tid, int dirfd, const char *path, char *out, size_t n) {
  if (path[0] == '/') { snprintf(out, n, "%s", path); return; }
  char base[PATH_MAX];
  if (dirfd == AT_FDCWD) {
    char p[64];
    snprintf(p, sizeof p, "/proc/%d/cwd", tid);
    ssize_t k = readlink(p, base, sizeof base - 1);
    if (k < 0) k = 0;
    base[k] = 0;
  } else if (fd_path(tid, dirfd, base, sizeof base) < 0) {
    base[0] = 0;
  }
  snprintf(out, n, "%s/%s", base, path);
}

static void jescape(const char *s, char *out, size_t n) {
  size_t o = 0;
  for (; *s && o + 8 < n; s++) {
    unsigned char c = (unsigned char)*s;
    if (c == '"' || c == '\\') { out[o++] = '\\'; out[o++] = c; }
    else if (c < 0x20 || c >= 0x7f) o += snprintf(out + o, n - o, "\\u%04x", c);
    else out[o++] = c;
  }
  out[o] = 0;
}

struct scinfo {
  const char *name;
  int kind;      // 1: path at arg0; 2: dirfd arg0 + path arg1; 3: fd at arg0; 4: two paths (0,1);
                 // 5: two dirfd+path pairs (0,1,2,3); 6: path arg0, dirfd arg1, path arg2 (symlinkat)
  int mutating;  // 1: always mutating; 0: never; 2: open-like (depends on flags)
};

static int classify(long nr, struct scinfo *si) {
  switch (nr) {
    case SYS_open: *si = (struct scinfo){"open", 1, 2}; return 1;
    case SYS_creat: *si = (struct scinfo){"creat", 1, 1}; return 1;
    case SYS_openat: *si = (struct scinfo){"openat", 2, 2}; return 1;
#ifdef SYS_openat2
    case SYS_openat2: *si = (struct scinfo){"openat2", 2, 2}; return 1;
#endif
    case SYS_mkdir: *si = (struct scinfo){"mkdir", 1, 1}; return 1;
    case SYS_mkdirat: *si = (struct scinfo){"mkdirat", 2, 1}; return 1;
    case SYS_rmdir: *si = (struct scinfo){"rmdir", 1, 1}; return 1;
    case SYS_unlink: *si = (struct scinfo){"unlink", 1, 1}; return 1;
    case SYS_unlinkat: *si = (struct scinfo){"unlinkat", 2, 1}; return 1;
    case SYS_rename: *si = (struct scinfo){"rename", 4, 1}; return 1;
    case SYS_renameat: *si = (struct scinfo){"renameat", 5, 1}; return 1;
    case SYS_renameat2: *si = (struct scinfo){"renameat2", 5, 1}; return 1;
    case SYS_link: *si = (struct scinfo){"link", 4, 1}; return 1;
    case SYS_linkat: *si = (struct scinfo){"linkat", 5, 1}; return 1;
    case SYS_symlink: *si = (struct scinfo){"symlink", 4, 1}; return 1;
    case SYS_symlinkat: *si = (struct scinfo){"symlinkat", 6, 1}; return 1;
    case SYS_truncate: *si = (struct scinfo){"truncate", 1, 1}; return 1;
    case SYS_chmod: *si = (struct scinfo){"chmod", 1, 1}; return 1;
    case SYS_fchmodat: *si = (struct scinfo){"fchmodat", 2, 1}; return 1;
    case SYS_chown: *si = (struct scinfo){"chown", 1, 1}; return 1;
    case SYS_utimensat: *si = (struct scinfo){"utimensat", 2, 1}; return 1;
    case SYS_stat: *si = (struct scinfo){"stat", 1, 0}; return 1;
    case SYS_lstat: *si = (struct scinfo){"lstat", 1, 0}; return 1;
    case SYS_newfstatat: *si = (struct scinfo){"newfstatat", 2, 0}; return 1;
    case SYS_statx: *si = (struct scinfo){"statx", 2, 0}; return 1;
    case SYS_access: *si = (struct scinfo){"access", 1, 0}; return 1;
    case SYS_faccessat: *si = (struct scinfo){"faccessat", 2, 0}; return 1;
#ifdef SYS_faccessat2
    case SYS_faccessat2: *si = (struct scinfo){"faccessat2", 2, 0}; return 1;
#endif
    case SYS_readlink: *si = (struct scinfo){"readlink", 1, 0}; return 1;
    case SYS_readlinkat: *si = (struct scinfo){"readlinkat", 2, 0}; return 1;
    case SYS_read: *si = (struct scinfo){"read", 3, 0}; return 1;
    case SYS_pread64: *si = (struct scinfo){"pread64", 3, 0}; return 1;
    case SYS_readv: *si = (struct scinfo){"readv", 3, 0}; return 1;
    case SYS_write: *si = (struct scinfo){"write", 3, 1}; return 1;
    case SYS_pwrite64: *si = (struct scinfo){"pwrite64", 3, 1}; return 1;
    case SYS_writev: *si = (struct scinfo){"writev", 3, 1}; return 1;
    case SYS_fallocate: *si = (struct scinfo){"fallocate", 3, 1}; return 1;
    case SYS_ftruncate: *si = (struct scinfo){"ftruncate", 3, 1}; return 1;
    case SYS_fsync: *si = (struct scinfo){"fsync", 3, 0}; return 1;
    case SYS_fdatasync: *si = (struct scinfo){"fdatasync", 3, 0}; return 1;
    case SYS_getdents64: *si = (struct scinfo){"getdents64", 3, 0}; return 1;
    case SYS_ioctl: *si = (struct scinfo){"ioctl", 3, 1}; return 1;
    case SYS_fchmod: *si = (struct scinfo){"fchmod", 3, 1}; return 1;
    case SYS_copy_file_range: *si = (struct scinfo){"copy_file_range", 7, 1}; return 1;
    case SYS_sendfile: *si = (struct scinfo){"sendfile", 8, 1}; return 1;
    case SYS_mmap: *si = (struct scinfo){"mmap", 9, 0}; return 1;
    case SYS_msync: return 0;
    default: return 0;
  }
}

// Examine a syscall at entry. Returns 1 if visible (under a root), fills desc (JSON object).
// For calls outside the roots that mutate the file system, appends to `outside`.
static int examine(struct thr *t, struct ptrace_syscall_info *info, char *desc, size_t dn) {
  struct scinfo si;
  long nr = (long)info->entry.nr;
  uint64_t a[6]; for (int k = 0; k < 6; k++) a[k] = (uint64_t)info->entry.args[k];
  if (!classify(nr, &si)) return 0;
  char p1[PATH_MAX] = "", p2[PATH_MAX] = "", raw[PATH_MAX], e1[PATH_MAX * 2], e2[PATH_MAX * 2];
  long flags = 0, count = -1;
  int fd = -1;
  int mut = si.mutating;
  switch (si.kind) {
    case 1:
      read_str(t->tid, a[0], raw, sizeof raw); abs_path(t->tid, AT_FDCWD, raw, p1, sizeof p1);
      flags = (long)a[1];
      break;
    case 2:
      read_str(t->tid, a[1], raw, sizeof raw); abs_path(t->tid, (int)a[0], raw, p1, sizeof p1);
      flags = (long)a[2];
      if (nr == SYS_unlinkat || nr == SYS_mkdirat) flags = (long)a[2];
      break;
    case 3:
      fd = (int)a[0]; fd_path(t->tid, fd, p1, sizeof p1); count = (long)a[2];
      if (nr == SYS_ioctl) { flags = (long)a[1]; count = -1; }
      if (nr == SYS_ftruncate) count = (long)a[1];
      if (nr == SYS_fallocate) count = (long)a[3];
      break;
    case 4:
      read_str(t->tid, a[0], raw, sizeof raw);
      if (nr == SYS_symlink) snprintf(p1, sizeof p1, "%s", raw);   // link target text: not a touched path
      else abs_path(t->tid, AT_FDCWD, raw, p1, sizeof p1);
      read_str(t->tid, a[1], raw, sizeof raw); abs_path(t->tid, AT_FDCWD, raw, p2, sizeof p2);
      break;
    case 5:
      read_str(t->tid, a[1], raw, sizeof raw); abs_path(t->tid, (int)a[0], raw, p1, sizeof p1);
      read_str(t->tid, a[3], raw, sizeof raw); abs_path(t->tid, (int)a[2], raw, p2, sizeof p2);
      break;
    case 6:
      read_str(t->tid, a[0], raw, sizeof raw); snprintf(p1, sizeof p1, "%s", raw);
      read_str(t->tid, a[2], raw, sizeof raw); abs_path(t->tid, (int)a[1], raw, p2, sizeof p2);
      break;
    case 7:  // copy_file_range(fd_in, off_in, fd_out, off_out, len, flags)
      fd_path(t->tid, (int)a[0], p1, sizeof p1); fd_path(t->tid, (int)a[2], p2, sizeof p2); count = (long)a[4];
      break;
    case 8:  // sendfile(out_fd, in_fd, offset, count)
      fd_path(t->tid, (int)a[1], p1, sizeof p1); fd_path(t->tid, (int)a[0], p2, sizeof p2); count = (long)a[3];
      break;
    case 9:  // mmap(addr, len, prot, flags, fd, off)
      if ((int)a[4] < 0) return 0;
      fd = (int)a[4]; fd_path(t->tid, fd, p1, sizeof p1); count = (long)a[1]; flags = (long)a[2];
      break;
  }
  if (mut == 2) mut = (flags & (O_WRONLY | O_RDWR | O_CREAT | O_TRUNC | O_APPEND)) ? 1 : 0;
  int symlink_like = (nr == SYS_symlink || nr == SYS_symlinkat);
  int vis = (!symlink_like && p1[0] == '/' && under_root(p1)) || (p2[0] == '/' && under_root(p2));
  jescape(p1, e1, sizeof e1);
  jescape(p2, e2, sizeof e2);
  if (vis) {
    snprintf(desc, dn, "{\"nr\":%ld,\"name\":\"%s\",\"path\":\"%s\",\"path2\":\"%s\",\"flags\":%ld,\"count\":%ld,\"fd\":%d,\"mut\":%d,\"tid\":%d}",
             nr, si.name, e1, e2, flags, count, fd, mut, t->tid);
    return 1;
  }
  // outside the roots: report mutating calls on real files (not pipes, sockets, /dev, /proc)
  if (mut) {
    const char *tp = (si.kind == 4 || si.kind == 5 || si.kind == 6 || si.kind == 7 || si.kind == 8) ? p2 : p1;
    int real = tp[0] == '/' && strncmp(tp, "/dev/", 5) != 0 && strncmp(tp, "/proc/", 6) != 0 &&
               strncmp(tp, "/sys/", 5) != 0;
    if (si.kind == 3 && nr == SYS_ioctl) real = 0;
    if (real && outside_len + 2 * PATH_MAX + 200 < sizeof outside) {
      outside_len += snprintf(outside + outside_len, sizeof outside - outside_len,
                              "%s{\"p\":%d,\"name\":\"%s\",\"path\":\"%s\",\"path2\":\"%s\",\"flags\":%ld}",
                              outside_len ? "," : "", t->proc, si.name, e1, e2, flags);
    }
  }
  return 0;
}

static void cont(pid_t tid, int sig) { ptrace(PTRACE_SYSCALL, tid, 0, sig); }

static int proc_has_held(int p, struct thr **oldest) {
  struct thr *best = NULL;
  for (int i = 0; i < nT; i++)
    if (T[i].alive && T[i].proc == p && T[i].held)
      if (!best || T[i].held_seq < best->held_seq) best = &T[i];
  if (oldest) *oldest = best;
  return best != NULL;
}

static int proc_threads(int p) {
  int n = 0;
  for (int i = 0; i < nT; i++) if (T[i].alive && T[i].proc == p) n++;
  return n;
}

// Handle one wait status. Returns pointer to thread if it just finished a stepped call
// (done_json filled), else NULL.
static char done_json[2400];

static struct thr *handle(pid_t tid, int status) {
  struct thr *t = find_thr(tid);
  if (!t) {
    int tg = tgid_of(tid);
    int proc = -1;
    for (int i = 0; i < MAXP; i++) if (procalive[i] && procpid[i] == tg) proc = i;
    if (proc < 0) {
      // not ours (or already gone): detach politely
      if (WIFSTOPPED(status)) ptrace(PTRACE_DETACH, tid, 0, 0);
      return NULL;
    }
    t = add_thr(tid, proc);
  }
  if (WIFEXITED(status) || WIFSIGNALED(status)) {
    t->alive = 0;
    if (tid == procpid[t->proc]) {
      procexit[t->proc] = WIFEXITED(status) ? WEXITSTATUS(status) : 128 + WTERMSIG(status);
    }
    if (proc_threads(t->proc) == 0) procalive[t->proc] = 0;
    return NULL;
  }
  if (!WIFSTOPPED(status)) return NULL;
  int sig = WSTOPSIG(status);
  if (sig == (SIGTRAP | 0x80)) {
    struct ptrace_syscall_info info;
    memset(&info, 0, sizeof info);
    long r = ptrace(PTRACE_GET_SYSCALL_INFO, tid, sizeof info, &info);
    if (r <= 0) { cont(tid, 0); return NULL; }
    if (info.op == PTRACE_SYSCALL_INFO_ENTRY) {
      if (t->stepping == 1) { cont(tid, 0); return NULL; }  // should not happen
      char desc[1600];
      if (!procfree[t->proc] && examine(t, &info, desc, sizeof desc)) {
        t->held = 1;
        t->held_seq = ++seq;
        snprintf(t->at, sizeof t->at, "%s", desc);
        return NULL;  // stays stopped
      }
      cont(tid, 0);
      return NULL;
    }
    if (info.op == PTRACE_SYSCALL_INFO_EXIT) {
      if (t->stepping) {
        long long rv = info.exit.rval;
        if (t->faulting) {
          struct user_regs_struct regs;
          ptrace(PTRACE_GETREGS, tid, 0, &regs);
          long long want = t->faulting == EMU_OK ? 0 : -(long long)t->faulting;
          regs.rax = (unsigned long long)want;
          ptrace(PTRACE_SETREGS, tid, 0, &regs);
          rv = want;
        }
        snprintf(done_json, sizeof done_json, "{\"call\":%s,\"ret\":%lld,\"faulted\":%s}", t->at, rv,
                 (t->faulting && t->faulting != EMU_OK) ? "true" : "false");
        t->stepping = 0;
        t->faulting = 0;
        return t;   // caller continues it
      }
      cont(tid, 0);
      return NULL;
    }
    cont(tid, 0);
    return NULL;
  }
  if (sig == SIGTRAP) {
    // ptrace events (clone/exec/exit...)
    cont(tid, 0);
    return NULL;
  }
  if (sig == SIGSTOP) {
    // initial stop of an auto-attached thread
    cont(tid, 0);
    return NULL;
  }
  cont(tid, sig);   // deliver other signals
  return NULL;
}

static void reply(int p, const char *done, int hang) {
  struct thr *h = NULL;
  proc_has_held(p, &h);
  printf("{\"p\":%d,\"done\":%s,\"at\":%s,\"exited\":", p, done ? done : "null", h ? h->at : "null");
  if (!procalive[p]) printf("%d", procexit[p]); else printf("null");
  printf(",\"hang\":%s,\"outside\":[%s]}\n", hang ? "true" : "false", outside);
  fflush(stdout);
  outside_len = 0;
  outside[0] = 0;
}

// run until process p has a held thread (newer than `after`) or is gone; if want_done, the
// stepped call's exit must have been seen first
static void drive(int p, int want_done) {
  char done[2400];
  int have_done = !want_done;
  long long deadline = now_ms() + WATCHDOG_MS;
  done[0] = 0;
  for (;;) {
    if (have_done && (proc_has_held(p, NULL) || !procalive[p])) break;
    int status;
    pid_t tid = waitpid(-1, &status, __WALL | WNOHANG);
    if (tid == 0) {
      if (now_ms() > deadline) { reply(p, done[0] ? done : NULL, 1); return; }
      struct timespec ts = {0, 200000};
      nanosleep(&ts, NULL);
      continue;
    }
    if (tid < 0) {
      if (errno == ECHILD) break;
      continue;
    }
    struct thr *f = handle(tid, status);
    if (f) {
      snprintf(done, sizeof done, "%s", done_json);
      have_done = 1;
      cont(f->tid, 0);
    }
  }
  reply(p, done[0] ? done : NULL, 0);
}

static void unescape(char *s) {
  char *o = s;
  for (; *s; s++) {
    if (*s == '%' && s[1] && s[2]) {
      char h[3] = {s[1], s[2], 0};
      *o++ = (char)strtol(h, NULL, 16);
      s += 2;
    } else *o++ = *s;
  }
  *o = 0;
}

static void kill_all(void) {
  for (int i = 0; i < MAXP; i++)
    if (procalive[i]) kill(procpid[i], SIGKILL);
  // reap
  long long deadline = now_ms() + 5000;
  for (;;) {
    int any = 0;
    for (int i = 0; i < MAXP; i++) any |= procalive[i];
    if (!any || now_ms() > deadline) break;
    int status;
    pid_t tid = waitpid(-1, &status, __WALL);
    if (tid < 0) break;
    struct thr *t = find_thr(tid);
    if (!t) continue;
    if (WIFEXITED(status) || WIFSIGNALED(status)) {
      t->alive = 0;
      if (tid == procpid[t->proc]) procexit[t->proc] = 128 + SIGKILL;
      if (proc_threads(t->proc) == 0) procalive[t->proc] = 0;
    } else if (WIFSTOPPED(status)) {
      // a stop racing with the kill: let it die
      ptrace(PTRACE_CONT, tid, 0, 0);
    }
  }
  for (int i = 0; i < MAXP; i++) procalive[i] = 0;
  for (int i = 0; i < nT; i++) T[i].alive = 0;
}

int main(int argc, char **argv) {
  for (int i = 1; i < argc; i++) {
    if (!strcmp(argv[i], "-r") && i + 1 < argc && nroots < MAXROOT) roots[nroots++] = argv[++i];
  }
  if (!nroots) { fprintf(stderr, "usage: sysched -r <root> [-r <root>]...\n"); return 2; }
  setvbuf(stdout, NULL, _IOLBF, 0);
  static char line[1 << 20];
  while (fgets(line, sizeof line, stdin)) {
    size_t n = strlen(line);
    while (n && (line[n - 1] == '\n' || line[n - 1] == '\r')) line[--n] = 0;
    char *cmd = strtok(line, " ");
    if (!cmd) continue;
    if (!strcmp(cmd, "quit")) break;
    if (!strcmp(cmd, "spawn")) {
      int p = atoi(strtok(NULL, " "));
      char *outf = strtok(NULL, " ");
      unescape(outf);
      char *av[64];
      int ac = 0;
      char *tok;
      while ((tok = strtok(NULL, " ")) && ac < 63) { unescape(tok); av[ac++] = tok; }
      av[ac] = NULL;
      pid_t pid = fork();
      if (pid == 0) {
        int fd = open(outf, O_WRONLY | O_CREAT | O_TRUNC, 0644);
        if (fd >= 0) { dup2(fd, 1); close(fd); }
        int dn = open("/dev/null", O_RDONLY);
        if (dn >= 0) { dup2(dn, 0); close(dn); }
        ptrace(PTRACE_TRACEME, 0, 0, 0);
        raise(SIGSTOP);
        execv(av[0], av);
        _exit(127);
      }
      int status;
      waitpid(pid, &status, __WALL);
      ptrace(PTRACE_SETOPTIONS, pid, 0,
             PTRACE_O_TRACESYSGOOD | PTRACE_O_EXITKILL | PTRACE_O_TRACECLONE | PTRACE_O_TRACEFORK |
                 PTRACE_O_TRACEVFORK | PTRACE_O_TRACEEXEC);
      procpid[p] = pid; procalive[p] = 1; procexit[p] = -1; procfree[p] = 0;
      add_thr(pid, p);
      cont(pid, 0);
      drive(p, 0);
      continue;
    }
    if (!strcmp(cmd, "step") || !strcmp(cmd, "fault") || !strcmp(cmd, "short")) {
      int p = atoi(strtok(NULL, " "));
      char *arg = strtok(NULL, " ");
      long v = arg ? atol(arg) : 0;
      struct thr *h = NULL;
      if (!procalive[p] || !proc_has_held(p, &h)) { reply(p, NULL, 0); continue; }
      h->held = 0;
      h->stepping = 1;
      if (!strcmp(cmd, "fault")) {
        struct user_regs_struct regs;
        ptrace(PTRACE_GETREGS, h->tid, 0, &regs);
        regs.orig_rax = (unsigned long long)-1;
        ptrace(PTRACE_SETREGS, h->tid, 0, &regs);
        h->faulting = (int)v;
      } else if (!strcmp(cmd, "short")) {
        struct user_regs_struct regs;
        ptrace(PTRACE_GETREGS, h->tid, 0, &regs);
        regs.rdx = (unsigned long long)v;
        ptrace(PTRACE_SETREGS, h->tid, 0, &regs);
      }
      cont(h->tid, 0);
      drive(p, 1);
      continue;
    }
    if (!strcmp(cmd, "emuclone")) {
      // the held call must be ioctl(dest_fd, FICLONE, src_fd): this file system cannot do it, so
      // the tracer copies src to dest itself, skips the call and makes it return 0
      int p = atoi(strtok(NULL, " "));
      struct thr *h = NULL;
      if (!procalive[p] || !proc_has_held(p, &h)) { reply(p, NULL, 0); continue; }
      struct user_regs_struct regs;
      ptrace(PTRACE_GETREGS, h->tid, 0, &regs);
      int ok = 0;
      if (regs.orig_rax == SYS_ioctl && (unsigned long)regs.rsi == FICLONE_REQ) {
        char sp[PATH_MAX], dp[PATH_MAX];
        snprintf(sp, sizeof sp, "/proc/%d/fd/%d", h->tid, (int)regs.rdx);
        snprintf(dp, sizeof dp, "/proc/%d/fd/%d", h->tid, (int)regs.rdi);
        int sfd = open(sp, O_RDONLY), dfd = open(dp, O_WRONLY | O_TRUNC);
        if (sfd >= 0 && dfd >= 0) {
          char buf[65536];
          ssize_t k;
          ok = 1;
          while ((k = read(sfd, buf, sizeof buf)) > 0)
            if (write(dfd, buf, (size_t)k) != k) { ok = 0; break; }
        }
        if (sfd >= 0) close(sfd);
        if (dfd >= 0) close(dfd);
      }
      h->held = 0;
      h->stepping = 1;
      if (ok) {
        regs.orig_rax = (unsigned long long)-1;
        ptrace(PTRACE_SETREGS, h->tid, 0, &regs);
        h->faulting = EMU_OK;
      }
      cont(h->tid, 0);
      drive(p, 1);
      continue;
    }
    if (!strcmp(cmd, "torn")) {
      int p = atoi(strtok(NULL, " "));
      long v = atol(strtok(NULL, " "));
      struct thr *h = NULL;
      if (procalive[p] && proc_has_held(p, &h)) {
        struct user_regs_struct regs;
        ptrace(PTRACE_GETREGS, h->tid, 0, &regs);
        regs.rdx = (unsigned long long)v;
        ptrace(PTRACE_SETREGS, h->tid, 0, &regs);
        h->held = 0;
        h->stepping = 1;
        cont(h->tid, 0);
        // wait for exactly this call's exit
        long long deadline = now_ms() + WATCHDOG_MS;
        for (;;) {
          int status;
          pid_t tid = waitpid(-1, &status, __WALL | WNOHANG);
          if (tid == 0) {
            if (now_ms() > deadline) break;
            struct timespec ts = {0, 200000};
            nanosleep(&ts, NULL);
            continue;
          }
          if (tid < 0) break;
          struct thr *f = handle(tid, status);
          if (f) break;   // exit stop of the torn call: do not continue it
        }
      }
      kill_all();
      printf("{\"killed\":true,\"torn\":%s}\n", done_json[0] ? done_json : "null");
      fflush(stdout);
      done_json[0] = 0;
      continue;
    }
    if (!strcmp(cmd, "kill")) {
      kill_all();
      printf("{\"killed\":true}\n");
      fflush(stdout);
      continue;
    }
    if (!strcmp(cmd, "run")) {
      int p = atoi(strtok(NULL, " "));
      procfree[p] = 1;
      for (int i = 0; i < nT; i++)
        if (T[i].alive && T[i].proc == p && T[i].held) { T[i].held = 0; cont(T[i].tid, 0); }
      long long deadline = now_ms() + WATCHDOG_MS;
      int hang = 0;
      while (procalive[p]) {
        int status;
        pid_t tid = waitpid(-1, &status, __WALL | WNOHANG);
        if (tid == 0) {
          if (now_ms() > deadline) { hang = 1; break; }
          struct timespec ts = {0, 200000};
          nanosleep(&ts, NULL);
          continue;
        }
        if (tid < 0) break;
        struct thr *f = handle(tid, status);
        if (f) cont(f->tid, 0);
      }
      reply(p, NULL, hang);
      continue;
    }
    printf("{\"error\":\"unknown command\"}\n");
    fflush(stdout);
  }
  kill_all();
  return 0;
}
