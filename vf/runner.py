"""Run batches of programs against the implementation, validate the traces with TLC, and
collect what the evidence file needs."""
import concurrent.futures as cf
import json
import os
import shutil
import time
import traceback

from . import trace as T
from . import verdict as V
from .common import WORK, ToolError, log
from .session import Session, run_program


def _run_batch_in_ns(args):
    """the whole batch - session, co-processes, validation - inside a private user + mount
    namespace (opts["twofs"]): the session may then mount file systems of its own (a fresh tmpfs
    for the cache, another one for the destinations)"""
    import subprocess
    import sys
    bid, programs, workdir, opts = args
    os.makedirs(workdir, exist_ok=True)
    af = os.path.join(workdir, "ns-args-%d.json" % bid)
    rf = os.path.join(workdir, "ns-result-%d.json" % bid)
    with open(af, "w") as f:
        json.dump([bid, programs, workdir, dict(opts, _inside_ns=True)], f)
    code = ("import json,sys; sys.path.insert(0, %r); from vf import runner as R; a=json.load(open(%r)); "
            "o=R._run_batch(tuple(a)); o['cases']=[list(c) for c in o.get('cases', [])]; "
            "json.dump(o, open(%r,'w'), default=str)") % (os.path.dirname(os.path.dirname(os.path.abspath(__file__))), af, rf)
    r = subprocess.run(["unshare", "-Urm", sys.executable, "-c", code], capture_output=True, text=True)
    if r.returncode != 0 or not os.path.exists(rf):
        return {"bid": bid, "programs": len(programs), "divs": [], "error": "namespace batch failed: " + (r.stderr or r.stdout)[-1500:]}
    with open(rf) as f:
        out = json.load(f)
    os.unlink(af)
    os.unlink(rf)
    return out


def _run_batch(args):
    bid, programs, workdir, opts = args
    if opts.get("twofs") and not opts.get("_inside_ns"):
        return _run_batch_in_ns(args)
    t0 = time.time()
    bdir = os.path.join(workdir, "b%d" % bid)
    shutil.rmtree(bdir, ignore_errors=True)
    os.makedirs(bdir)
    sess = Session(bdir, reflink=opts.get("reflink", False), exact=opts.get("exact", False),
                   total=opts.get("total", False), layout=opts.get("layout", False),
                   relcache=opts.get("relcache", False) and (bid % 2 == 1), fullfs=opts.get("fullfs", 0),
                   oddroot=opts.get("oddroot", False) and (bid % 3 == 0),
                   twofs=bool(opts.get("twofs") and opts.get("_inside_ns")))
    out = {"bid": bid, "programs": len(programs), "divs": [], "error": None}
    try:
        results, finals = [], []
        for i, prog in enumerate(programs):
            if i > 0:
                sess.new_cache()
            results.append(run_program(sess, prog))
            finals.append({k: sess.prev[k] for k in ("buckets", "store", "ext", "tmp", "hasIndex")})
        sess.close()
        path = os.path.join(bdir, "trace.ndjson")
        sess.write_trace(path)
        info = T.validate_file(path, os.path.join(bdir, "tlc"))
        out.update({"trace": path, "events": len(sess.trace), "calls": sess.ncalls,
                    "cases": sorted(sess.cases), "anomalies": sess.anomalies,
                    "states": info["states"], "transitions": info["transitions"],
                    "accepted": info["accepted"]})
        if opts.get("keep_results"):
            out["results"] = results
            out["final"] = finals
        if opts.get("layout"):
            lp = sess.write_layout_trace(os.path.join(bdir, "layout.ndjson"))
            linfo = T.validate_file(lp, os.path.join(bdir, "tlc"), module="TraceLayout", cfg="TraceLayout.cfg")
            out["layout_events"] = len(sess.layout)
            out["states"] += linfo["states"]
            out["transitions"] += linfo["transitions"]
            if not linfo["accepted"]:
                ev = T.event_at(lp, linfo.get("line", 0)) or {}
                ev.pop("appended", None)
                ev.pop("json", None)
                out["layout_reject"] = {"line": linfo.get("line"), "event": ev, "trace": lp}
                with open(os.path.join(bdir, "programs.json"), "w") as f:
                    json.dump(programs, f)
        if not info["accepted"]:
            divs = V.collect_divergences(sess, os.path.join(bdir, "trace"), os.path.join(bdir, "tlc"))
            lines = open(os.path.join(bdir, "trace.diag.ndjson")).read().splitlines()
            raw = open(path).read().splitlines()
            for d in divs:
                lo, lr = V.last_call_before(raw, d.get("line", 1), with_res=True)
                ctx = {"last_op": lo, "last_res_ok": lr}
                # opts["also"]: properties every divergence of this batch speaks about in addition
                # (e.g. a cache written by the reference and read by the library: C17)
                d["props"] = sorted(V.classify(d, ctx) | set(opts.get("also") or ()))
                d["last_op"] = ctx["last_op"]
            if info.get("invariant"):
                divs.append({"what": "invariant", "name": info["invariant"],
                             "props": {"TmpOK": ["C14"], "ListOK": ["C10"]}.get(info["invariant"], [])})
            out["divs"] = divs
            # keep the failing programs next to the trace for replay
            with open(os.path.join(bdir, "programs.json"), "w") as f:
                json.dump(programs, f)
    except ToolError as e:
        out["error"] = "tool: %s" % e
    except Exception:
        out["error"] = traceback.format_exc()
    finally:
        try:
            sess.close()
        except Exception:
            pass
        sess.remove_caches()
    out["wall"] = time.time() - t0
    return out


def run_batches(name, batches, opts=None, jobs=8):
    """batches: list of lists of programs.  Returns aggregated dict."""
    opts = opts or {}
    workdir = os.path.join(WORK, name)
    os.makedirs(workdir, exist_ok=True)
    args = [(i, b, workdir, opts) for i, b in enumerate(batches)]
    outs = []
    if jobs <= 1 or len(args) <= 1:
        outs = [_run_batch(a) for a in args]
    else:
        with cf.ProcessPoolExecutor(max_workers=jobs) as ex:
            outs = list(ex.map(_run_batch, args))
    agg = {"traces": 0, "events": 0, "calls": 0, "states": 0, "transitions": 0, "cases": set(),
           "divs": [], "anomalies": [], "programs": 0, "rejected": []}
    for o in outs:
        if o.get("error"):
            raise ToolError("batch %s failed: %s" % (o["bid"], o["error"]))
        agg["traces"] += 1
        agg["programs"] += o["programs"]
        agg["events"] += o["events"]
        agg["calls"] += o["calls"]
        agg["states"] += o["states"]
        agg["transitions"] += o["transitions"]
        agg["cases"] |= {tuple(c) for c in o["cases"]}
        agg["anomalies"] += o["anomalies"]
        agg["layout_events"] = agg.get("layout_events", 0) + o.get("layout_events", 0)
        if o.get("layout_reject"):
            lr = o["layout_reject"]
            agg["divs"].append({"what": "layout", "line": lr["line"], "event": lr["event"], "trace": lr["trace"],
                                "props": ["C17"],
                                "programs": os.path.join(os.path.dirname(lr["trace"]), "programs.json")})
        if not o["accepted"]:
            agg["rejected"].append(o["trace"])
            for d in o["divs"]:
                d["trace"] = o["trace"]
                d["programs"] = os.path.join(os.path.dirname(o["trace"]), "programs.json")
                agg["divs"].append(d)
        if o.get("results") is not None:
            agg.setdefault("results", []).append(o["results"])
            agg.setdefault("finals", []).append(o["final"])
    return agg


def chunk(lst, n):
    return [lst[i:i + n] for i in range(0, len(lst), n)]
