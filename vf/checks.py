"""Per-property checks: model checking of the specification + conformance of the implementation."""
import json
import os
import random
import shutil
import sys
import time

from . import gen as G
from . import mc as M
from . import runner as RN
from .common import (EVID, SPEC, WORK, ToolError, build, load_known_findings, log, write_evidence)
from .session import ALL_LANES

QUICK = "quick"


def seed_of():
    try:
        return int(os.environ.get("VERIF_SEED", "1"))
    except ValueError:
        return 1


# --------------------------------------------------------------------------------------
# property checks.  Each returns
#   {"mc": [model-checking stats], "agg": conformance aggregate, "samples": [...],
#    "rule": str, "assumptions": [...], "exhaustive": bool?}
# --------------------------------------------------------------------------------------

def _mc_core(pid, name, tier, **kw):
    wd = os.path.join(WORK, pid, "mc_" + name)
    cfg = M.core_cfg(os.path.join(wd, name + ".cfg"), **kw)
    return M.check_model("MC_Core", cfg, wd, workers=8 if tier == QUICK else 14,
                         timeout=600 if tier == QUICK else 3000)


def _mc_index(pid, tier, appends, damage):
    if damage >= 2 and appends >= 3:
        # (3 appends with 2 damage operations does not finish in an hour; the thorough tier runs
        # 3 appends / 1 damage and 2 appends / 2 damages instead)
        a = _mc_index(pid, tier, 3, 1)
        b = _mc_index(pid + "_d2", tier, 2, 2)
        return {"module": "MC_Index", "cfg": "MC_Index 3x1 + 2x2", "states": a["states"] + b["states"],
                "transitions": a["transitions"] + b["transitions"], "wall": a["wall"] + b["wall"]}
    wd = os.path.join(WORK, pid, "mc_index")
    os.makedirs(wd, exist_ok=True)
    cfg = os.path.join(wd, "MC_Index.cfg")
    with open(os.path.join(SPEC, "MC_Index.cfg")) as f:
        txt = f.read()
    import re
    txt = re.sub(r"MaxAppends = \d+", "MaxAppends = %d" % appends, txt)
    txt = re.sub(r"MaxDamage = \d+", "MaxDamage = %d" % damage, txt)
    with open(cfg, "w") as f:
        f.write(txt)
    return M.check_model("MC_Index", cfg, wd, workers=8 if tier == QUICK else 14,
                         timeout=600 if tier == QUICK else 3000)


def _tlaps_index(pid, module="IndexRefine", least=100):
    """IndexRefine.tla: the UNBOUNDED statements (any log length, any key set) proved by TLAPS:
    the append-only log refines a map (InitInv, NextInv), damage of one record is contained to
    its key (DamageContained), a lookup is a function of the log (YieldsUnique).  MC_Index checks
    (invariant RefinesAbstract) that the fold of the token-level model is that lookup."""
    import subprocess, time, re
    wd = os.path.join(WORK, pid, "tlaps_" + module)
    shutil.rmtree(wd, ignore_errors=True)
    os.makedirs(wd, exist_ok=True)
    shutil.copy(os.path.join(SPEC, module + ".tla"), wd)
    t0 = time.time()
    try:
        r = subprocess.run(["timeout", "900", "tlapm", "--threads", "8", module + ".tla"], cwd=wd,
                           capture_output=True, text=True)
    except FileNotFoundError:
        raise ToolError("tlapm not found")
    out = r.stdout + r.stderr
    m = re.search(r"All (\d+) obligations proved", out)
    if not m or int(m.group(1)) < least:
        raise ToolError("TLAPS did not prove %s.tla:\n" % module + out[-2500:])
    shutil.rmtree(os.path.join(wd, ".tlacache"), ignore_errors=True)
    return {"module": module, "cfg": "tlapm: %s proof obligations, unbounded log length and key set" % m.group(1),
            "states": 0, "transitions": 0, "wall": round(time.time() - t0, 1)}


def _fullfs_available():
    """can a co-process get a private tmpfs (user + mount namespace)?  Where it cannot, the
    full-file-system programs are skipped (and the evidence says so) instead of raising alarms"""
    import subprocess, tempfile
    d = tempfile.mkdtemp(prefix="verif-mnt-probe-", dir=WORK if os.path.isdir(WORK) else None)
    try:
        r = subprocess.run(["unshare", "-Urm", "sh", "-c", "mount -t tmpfs -o size=1024k tmpfs '%s' && echo ok" % d],
                           capture_output=True, text=True, timeout=20)
        return r.returncode == 0 and "ok" in r.stdout
    except Exception:
        return False
    finally:
        shutil.rmtree(d, ignore_errors=True)


def _mixed(tier, rng, lanes=None):
    """cross-feature programs (gen.mixed_program) every API-level check adds to its own: small
    programs of several generators interleaved on one cache; divergences are attributed as usual"""
    n = 3 if tier == QUICK else 40
    return [G.mixed_program(rng, lanes=lanes or G.ALL_LANES, nparts=rng.choice([3, 4, 5]),
                            scale=1 if tier == QUICK else 2) for _ in range(n)]


def _merge(agg, other):
    for k in ("traces", "events", "calls", "states", "transitions", "programs"):
        agg[k] += other[k]
    agg["cases"] |= other["cases"]
    agg["divs"] += other["divs"]
    agg["anomalies"] = agg.get("anomalies", []) + other.get("anomalies", [])
    agg["sys_calls"] = agg.get("sys_calls", 0) + other.get("sys_calls", 0)
    return agg


def _replay(pid, tier, rng, jobs, name, depth, nquick, nthorough, **cfgkw):
    """specification -> implementation: behaviours generated by TLC from the contract (simulation
    of MC_Core with the Export invariant) are concretised and executed on the library"""
    from . import replay as RP
    q = tier == QUICK
    hs = RP.export_behaviours("%s_%s" % (pid, name), 300, depth, rng.randrange(1 << 30), **cfgkw)
    want = nquick if q else nthorough
    if len(hs) > want:
        hs = rng.sample(hs, want)
    progs = RP.programs_from(hs, rng, ALL_LANES)
    agg = RN.run_batches("%s_replay_%s" % (pid, name), RN.chunk(progs, 60), jobs=jobs)
    agg["replayed_behaviours"] = len(progs)
    return agg


def check_C05(tier, rng, jobs):
    q = tier == QUICK
    mc = [_mc_core("C05", "history", tier, keys=["k1", "k2"], datas=["d1", "d2"], algos=["sha256"],
                   times=["1"] if q else ["1", "2"], metas=["m1"], dests=[],
                   fam=["write", "insert", "remove", "lookup"], maxops=4,
                   invariants=["TypeOK", "LookupRefinesMap", "ListMatchesMap", "ListAgrees"],
                   properties=["RemovalFrame", "OnlyCommitMaps"]),
          _mc_core("C05", "collide", tier, keys=["k1", "k2"], datas=["d1"], algos=["sha256"],
                   times=["1"], metas=["m1"], dests=[], collide=True,
                   fam=["write", "insert", "remove", "lookup"], maxops=4 if q else 5,
                   invariants=["TypeOK", "LookupRefinesMap", "ListAgrees"],
                   properties=["RemovalFrame"]),
          _mc_index("C05", tier, 2 if q else 3, 1), _tlaps_index("C05")]
    nprog = 24 if q else 200
    progs = [G.history_program(rng, rng.choice([15, 30, 60]) if q else rng.choice([40, 80, 150]),
                               nkeys=rng.choice([3, 6, 12]), ndata=rng.choice([3, 5]),
                               removal_weight=0.25, plant=(i % 3 == 0), algos=("sha256", "sha1"),
                               full_opts=(i % 3 == 1), garbage=(i % 3 == 2))
             for i in range(nprog)]
    progs += _mixed(tier, rng)
    progs.append(G.deep_boundary_program(rng))
    agg = RN.run_batches("C05", RN.chunk(progs, 3 if q else 5), opts={"relcache": True, "oddroot": True}, jobs=jobs)
    rep = _replay("C05", tier, rng, jobs, "history", 5, 600, 8000, keys=["k1", "k2"], datas=["d1", "d2"],
                  algos=["sha256"], times=["1", "2"], metas=["m1"], dests=[],
                  fam=["write", "insert", "remove", "lookup"])
    _merge(agg, rep)
    return {"mc": mc, "agg": agg, "samples": [progs[0]["steps"][:12]],
            "coverage_extra": {"spec_behaviours_replayed_into_impl": rep["replayed_behaviours"]},
            "rule": "random histories of keyed writes (one-shot and streamed, sync and async entry points of "
                    "three builds), raw inserts, removals, re-writes, planted foreign records; after every "
                    "mutating step every key is looked up; a case = (operation, variant, lane, outcome)"}


def check_C10(tier, rng, jobs):
    q = tier == QUICK
    mc = [_mc_index("C10", tier, 3, 1 if q else 2), _tlaps_index("C10"),
          _mc_core("C10", "history", tier, keys=["k1", "k2"], datas=["d1", "d2"], algos=["sha256"],
                   times=["1"], metas=["m1"], dests=[],
                   fam=["write", "insert", "remove", "lookup", "stray"], maxops=4 if q else 5,
                   invariants=["ListMatchesMap", "ListAgrees"], properties=[])]
    nprog = 24 if q else 300
    progs = [G.history_program(rng, rng.choice([20, 40]) if q else rng.choice([60, 120]),
                               nkeys=rng.choice([2, 4, 12]), ndata=3, removal_weight=0.3, bulk=True,
                               stray=(i % 3 == 0))
             for i in range(nprog)]
    progs += _mixed(tier, rng)
    agg = RN.run_batches("C10", RN.chunk(progs, 3 if q else 5), opts={"oddroot": True}, jobs=jobs)
    return {"mc": mc, "agg": agg, "samples": [progs[0]["steps"][:12]],
            "rule": "random histories with several records per bucket and tombstones in any position; a "
                    "listing (list_sync / index::ls) follows every mutating step and is compared as a "
                    "multiset of full entries with the specification's Listing"}


def check_C09(tier, rng, jobs):
    q = tier == QUICK
    mc = [_mc_core("C09", "removal", tier, keys=["k1", "k2"], datas=["d1", "d2"], algos=["sha256"],
                   times=["1"], metas=[], dests=[], fam=["write", "remove", "lookup"],
                   maxops=5 if q else 6,
                   invariants=["TypeOK", "LookupRefinesMap", "ListMatchesMap"],
                   properties=["RemovalFrame"])] + _fs_mc("C09", tier)
    nprog = 24 if q else 300
    progs = [G.history_program(rng, rng.choice([20, 40]) if q else rng.choice([60, 120]),
                               nkeys=rng.choice([4, 12]), ndata=rng.choice([2, 6]),
                               removal_weight=0.4, bulk=True, algos=("sha256", "sha512"), rootlink=(i % 2 == 0))
             for i in range(nprog)]
    progs += G.removal_combo_programs(rng, lanes_per_combo=2 if q else 5)
    progs += _mixed(tier, rng)
    agg = RN.run_batches("C09", RN.chunk(progs, 6 if q else 8), opts={"relcache": True, "oddroot": True}, jobs=jobs)
    rep = _replay("C09", tier, rng, jobs, "removal", 6, 600, 8000, keys=["k1", "k2"], datas=["d1", "d2"],
                  algos=["sha256"], times=["1"], metas=[], dests=[], fam=["write", "remove", "lookup"])
    _merge(agg, rep)
    return {"mc": mc, "agg": agg, "samples": [progs[0]["steps"][:12]],
            "coverage_extra": {"spec_behaviours_replayed_into_impl": rep["replayed_behaviours"]},
            "rule": "random histories mixing writes with remove / remove_hash / remove_fully / clear over "
                    "keys sharing content and keys never written; after every step all keys and addresses "
                    "are observed and the whole directory projection is compared with the ghost state"}


def check_C11(tier, rng, jobs):
    q = tier == QUICK
    mc = [_mc_core("C11", "meta", tier, keys=["k1"], datas=["d1"], algos=["sha256"],
                   times=["1", "2"], metas=["m1", "m2"], dests=[],
                   fam=["write", "insert", "lookup", "deep"], maxops=3 if q else 4,
                   invariants=["LookupRefinesMap", "ListMatchesMap"], properties=["OnlyCommitMaps"]),
          _mc_core("C11", "meta_writer", tier, keys=["k1"], datas=["d1"], algos=["sha256"],
                   times=["1"], metas=["m1"], dests=[],
                   fam=["writer", "lookup", "deep"], maxops=4 if q else 5,
                   invariants=["LookupRefinesMap", "ListMatchesMap", "TmpAccounted"],
                   properties=["OnlyCommitMaps", "CommitVerdict"])]
    nprog = 30 if q else 400
    progs = [G.history_program(rng, rng.choice([10, 25]) if q else rng.choice([40, 100]),
                               nkeys=rng.choice([3, 6]), ndata=3, removal_weight=0.05, full_opts=True)
             for i in range(nprog)]
    progs += _mixed(tier, rng)
    progs.append(G.deep_boundary_program(rng))
    agg = RN.run_batches("C11", RN.chunk(progs, 3 if q else 5), jobs=jobs)
    return {"mc": mc, "agg": agg, "samples": [progs[0]["steps"][:8]],
            "rule": "writes and raw inserts with every subset of {time, size, metadata, raw_metadata} "
                    "supplied, hostile keys, extreme timestamps, nested JSON with control / non-ASCII "
                    "characters and 64-bit integers, random raw bytes; equality of what comes back is "
                    "decided on concrete values, which identifier must come back is decided by TLC; default "
                    "timestamps must lie inside the call's own clock window",
            "assumptions": ["input space sampled by a seeded generator, not exhausted"]}


def check_C02(tier, rng, jobs):
    q = tier == QUICK
    mc = [_mc_core("C02", "commit", tier, keys=["k1"], datas=["d1", "d2", "empty"], algos=["sha256", "sha1"],
                   times=["1"], metas=[], dests=[], fam=["writer", "write", "lookup"], maxops=4 if q else 5,
                   invariants=["TypeOK", "TmpAccounted", "LookupRefinesMap"],
                   properties=["RoundTrip", "OnlyCommitMaps", "CommitVerdict", "AddressesPure", "CommittedReadable"])]
    progs = [G.roundtrip_program(rng, 12 if q else 40) for _ in range(16 if q else 200)]
    progs += [G.roundtrip_program(rng, 3 if q else 8, big=True) for _ in range(4 if q else 40)]
    progs += [G.cancel_program(rng) for _ in range(1 if q else 10)]
    # (round trips of writers that DECLARE an integrity: one hash, several algorithms, several
    # digests of one algorithm - the entry must stay readable wherever the contract says it is)
    progs += [G.commit_program(rng, 8 if q else 25) for _ in range(4 if q else 40)]
    progs.append(G.big_chunk_program(rng, sizes=(2 * G.MIB + 1, 3 * G.MIB + 17) if q
                                     else (2 * G.MIB, 2 * G.MIB + 1, 3 * G.MIB + 17, 8 * G.MIB + 5)))
    progs += _mixed(tier, rng)
    agg = RN.run_batches("C02", RN.chunk(progs, 2 if q else 4), opts={"relcache": True, "oddroot": True}, jobs=jobs)
    return {"mc": mc, "agg": agg, "samples": [progs[0]["steps"][:10]],
            "rule": "round trips over hostile keys x data lengths {0,1,..,1MiB-1,1MiB,1MiB+1,3MiB} x chunkings "
                    "(one shot, single bytes, decreasing, with empty chunks, random) x five algorithms x all write "
                    "entry points x five lanes; read back by key and by address",
            "assumptions": ["input space sampled by a seeded generator, not exhausted",
                            "xxh3 digests are not recomputed independently (no implementation installed)"]}


def _multihash_finding(pid, tier):
    """The model (which mirrors the code here) admits a keyed commit that succeeds and leaves an
    entry that cannot be read: a declared multi-hash integrity whose strongest algorithm is not
    the writer's.  The configuration is restricted to exactly that class of declared values, so
    a counterexample it finds IS the listed finding; every other class is in the normal runs."""
    wd = os.path.join(WORK, pid, "mc_multihash")
    cfg = M.core_cfg(os.path.join(wd, "commit_multi.cfg"), keys=["k1"], datas=["d1"], algos=["sha256", "sha1"],
                     times=["1"], metas=[], dests=[], fam=["writer", "lookup"], maxops=3, multisri=True,
                     invariants=["TypeOK"], properties=["CommittedReadable"])
    v, res = M.find_model_counterexample("MC_Core", cfg, wd)
    if v is None:
        return []
    return [{"what": "model", "name": "CommittedReadable/multi-hash-stronger-algorithm", "props": ["C08", "C02"],
             "event": {"ev": "model", "op": {"op": "w_commit"}}, "exp": None, "obs": None,
             "trace": cfg, "programs": cfg, "violated": v}]


def check_C08(tier, rng, jobs):
    q = tier == QUICK
    mc = [_mc_core("C08", "commit", tier, keys=["k1"], datas=["d1", "d2"], algos=["sha256", "sha1"],
                   times=["1"], metas=[], dests=[], fam=["writer", "write", "remove", "lookup"],
                   maxops=4 if q else 5,
                   invariants=["TypeOK", "TmpAccounted", "LookupRefinesMap"],
                   properties=["CommitVerdict", "OnlyCommitMaps", "RoundTrip", "CommittedReadable"])]
    known_divs = _multihash_finding("C08", tier)
    progs = [G.commit_program(rng, 14 if q else 40, lanes=G.ALL_LANES + (["P"] if i % 2 else []))
             for i in range(16 if q else 200)]
    progs += [G.commit_program(rng, 3 if q else 6, big=True) for _ in range(4 if q else 40)]
    progs += _mixed(tier, rng)
    agg = RN.run_batches("C08", RN.chunk(progs, 2 if q else 4), jobs=jobs)
    rep = _replay("C08", tier, rng, jobs, "writer", 5, 600, 8000, keys=["k1"], datas=["d1", "d2", "empty"],
                  algos=["sha256", "sha1"], times=["1"], metas=[], dests=[],
                  fam=["writer", "write", "remove", "lookup"])
    _merge(agg, rep)
    agg["divs"] += known_divs
    return {"mc": mc, "agg": agg, "samples": [progs[0]["steps"][:10]],
            "rule": "commits with declared size {none, less, equal, more} x declared integrity {none, right, "
                    "wrong, other algorithm, multi} x prior key state {absent, present, removed} x chunkings x "
                    "keyed / by address x both sides of the 1 MiB mmap threshold x five lanes, with lookups "
                    "before and after"}


def check_C14(tier, rng, jobs):
    q = tier == QUICK
    mc = [_mc_core("C14", "abandon", tier, keys=["k1"], datas=["d1", "d2"], algos=["sha256"],
                   times=["1"], metas=[], dests=[], fam=["writer", "write", "remove", "lookup"],
                   maxops=5 if q else 6,
                   invariants=["TypeOK", "TmpAccounted", "LookupRefinesMap"],
                   properties=["OnlyCommitMaps"])]
    progs = [G.abandon_program(rng, 12 if q else 40) for _ in range(16 if q else 200)]
    progs += [G.abandon_program(rng, 2 if q else 6, big=True) for _ in range(2 if q else 20)]
    progs.append(G.cleared_writer_program(rng))
    progs += _mixed(tier, rng)
    agg = RN.run_batches("C14", RN.chunk(progs, 2 if q else 4), jobs=jobs)
    # commits that fail in the middle (an injected error at each visible system call of a write
    # through the blocking API of each build): once the process is gone no temp file remains
    # (rule TmpLeft of TraceFS.tla) and the key reads as before or as written
    from . import fsplans as F
    refs = F.fault_op_scenarios(rng, tier, lanes=("S", "As", "Ts"),
                                kinds=("write", "write_hash", "write_streamed_mmap", "write_over"))
    ragg = F.run_fs_batches("C14ref", RN.chunk(refs, 3), "conc", resolvable=False, jobs=jobs)
    scen = []
    for sc, inf in zip(refs, ragg["infos"]):
        scen += F.fault_scenarios(sc, inf["calls"], rng, pairs=not q)
    fagg = F.run_fs_batches("C14f", RN.chunk(scen, 120), "fault", resolvable=True, jobs=jobs)
    for a in (ragg, fagg):
        _merge(agg, a)
    return {"mc": mc, "agg": agg, "samples": [progs[0]["steps"][:10]],
            "coverage_extra": {"failed_commit_runs": len(scen), "system_calls_stepped": agg.get("sys_calls", 0)},
            "rule": "writers abandoned after creation / after j chunks / with a background write in flight / "
                    "after close / after a commit rejected by size or integrity, interleaved with successful "
                    "operations; tmp/ is polled to quiescence (bound 10 s) and must match the live handles; "
                    "commits failing at each visible system call (injected errno) leave no temp file behind"}


def _retrieve_progs(tier, rng):
    q = tier == QUICK
    progs = [G.retrieve_program(rng, 10 if q else 30) for _ in range(16 if q else 200)]
    progs += [G.retrieve_program(rng, 3 if q else 6, big=True) for _ in range(3 if q else 30)]
    # exhaustive at byte level for small files: every bit flip and every truncation length
    for n, a in ([(3, "sha256"), (5, "sha1")] if q else [(3, "sha256"), (5, "sha1"), (8, "sha512"),
                                                          (16, "sha384"), (24, "xxh3"), (64, "sha256")]):
        progs.append(G.small_exhaustive_program(rng, n, a))
    progs.append(G.boundary_retrieve_program(rng, sizes=(8192, 16384) if q else (8192, 16384, 65536, 1048576)))
    return progs


def _mc_retrieve(pid, tier):
    q = tier == QUICK
    return [_mc_core(pid, "retrieve", tier, keys=["k1"], datas=["d1", "d2"], algos=["sha256", "sha1"],
                     times=["1"], metas=[], dests=["x1"],
                     fam=["write", "damage", "ext", "extract", "lookup", "reader"], maxops=4 if q else 5,
                     invariants=["TypeOK"], properties=["CheckedNeverWrong", "RemovalFrame"])]


def check_C01(tier, rng, jobs):
    mc = _mc_retrieve("C01", tier)
    progs = _retrieve_progs(tier, rng)
    progs += _mixed(tier, rng)
    agg = RN.run_batches("C01", RN.chunk(progs, 2 if tier == QUICK else 4), jobs=jobs)
    return {"mc": mc, "agg": agg, "samples": [progs[0]["steps"][:12]],
            "rule": "entries of 0 B .. >1 MiB under five algorithms; damage classes {bit flip, truncation, "
                    "extension, empty, overwrite, removal, bytes of another valid entry, swap, symlink to foreign "
                    "bytes}; every single-bit flip and truncation length of small files; all checked retrieval "
                    "entry points (read, read_hash, Reader/SyncReader with buffer sizes 1..65536 + check, copy, "
                    "hard_link, reflink; by key and by address) on five lanes",
            "coverage_extra": {"exhaustive_part_impl": "all single-bit flips and truncation lengths of the small files listed in the rule"}}


def check_C18(tier, rng, jobs):
    mc = _mc_retrieve("C18", tier)
    progs = _retrieve_progs(tier, rng)
    progs += _mixed(tier, rng)
    agg = RN.run_batches("C18", RN.chunk(progs, 2 if tier == QUICK else 4), jobs=jobs)
    two_ok = _fullfs_available()
    if two_ok:
        # cache and destinations on two fresh file systems (a private mount namespace)
        tprogs = [G.twofs_program(rng) for _ in range(1 if tier == QUICK else 6)]
        _merge(agg, RN.run_batches("C18twofs", RN.chunk(tprogs, 1), opts={"twofs": True}, jobs=jobs))
    # reflink success paths: FICLONE is emulated by the tracer, the outcome of each single
    # operation is explained against the contract with ReflinkOK = TRUE (SerialAPI)
    from . import fsplans as F
    rl = F.reflink_scenarios(rng, tier)
    ragg = F.run_fs_batches("C18rl", RN.chunk(rl, 40), "conc", resolvable=False, jobs=jobs)
    _merge(agg, ragg)
    agg["sys_calls"] = agg.get("sys_calls", 0) + ragg["sys_calls"]
    rep = _replay("C18", tier, rng, jobs, "extract", 5, 600, 8000, keys=["k1"], datas=["d1", "d2", "empty"],
                  algos=["sha256", "sha1"], times=["1"], metas=[], dests=["x1", "x2"],
                  fam=["write", "damage", "ext", "extract", "lookup", "reader"])
    _merge(agg, rep)
    return {"mc": mc, "agg": agg, "samples": [progs[1]["steps"][:12]],
            "coverage_extra": {"spec_behaviours_replayed_into_impl": rep["replayed_behaviours"]},
            "rule": "as C01 with the destination observed: existence and bytes of every destination are part of "
                    "the projection compared after each call; destinations absent and pre-existing; copy count "
                    "compared with the length",
            "assumptions": ["reflink success paths cannot occur on this ext4 (FICLONE unsupported); only the "
                            "verify-then-fail behaviour of reflink* is observed"]}


def check_C16(tier, rng, jobs):
    q = tier == QUICK
    mc = [_mc_core("C16", "algo", tier, keys=["k1", "k2"], datas=["d1", "d2"], algos=["sha256", "sha1"],
                   times=["1"], metas=[], dests=[], fam=["write", "remove", "lookup"], maxops=4 if q else 5,
                   invariants=["TypeOK", "LookupRefinesMap"], properties=["AddressesPure", "RoundTrip", "RemovalFrame"])]
    progs = [G.algo_program(rng, 12 if q else 40) for _ in range(16 if q else 200)]
    progs += _mixed(tier, rng)
    agg = RN.run_batches("C16", RN.chunk(progs, 2 if q else 4), jobs=jobs)
    return {"mc": mc, "agg": agg, "samples": [progs[0]["steps"][:10]],
            "rule": "equal data re-written under the same and different keys through every write entry point "
                    "and lane under five algorithms while earlier copies exist; returned addresses are mapped to "
                    "data by hashlib digests (SHA-1/256/384/512) and by the xxhash crate (XXH3); the content "
                    "area projection (one file per address, bytes equal to the data) is compared after each call",
            "assumptions": ["XXH3 is compared with the xxhash crate called directly, not with an independent implementation"]}


def check_C19(tier, rng, jobs):
    q = tier == QUICK
    mc = [_mc_core("C19", "link", tier, keys=["k1"], datas=["d1", "d2"], algos=["sha256"],
                   times=["1"], metas=[], dests=["x1", "x2"],
                   fam=["link", "ext", "lookup", "write", "remove"], maxops=4 if q else 5,
                   invariants=["TypeOK"], properties=["TargetsUntouched", "CheckedNeverWrong", "OnlyCommitMaps"])]
    progs = [G.link_program(rng, 8 if q else 25) for _ in range(16 if q else 200)]
    progs += _mixed(tier, rng)
    agg = RN.run_batches("C19", RN.chunk(progs, 2 if q else 4), jobs=jobs)
    return {"mc": mc, "agg": agg, "samples": [progs[0]["steps"][:12]],
            "rule": "targets of size {0,5,8,9,16KiB-1,16KiB,16KiB+1,40KiB}; absolute and relative target paths "
                    "from four working directories; one-shot and linker handles with partial reads and declared "
                    "size/integrity; reads by key and address through several entry points; targets changed / "
                    "removed / replaced after linking; addresses that already exist as regular content; the "
                    "symlink in the content area and the bytes of every target are part of the projection"}


def check_C06(tier, rng, jobs):
    q = tier == QUICK
    mc = [_mc_index("C06", tier, 3, 1 if q else 2), _tlaps_index("C06")]
    progs = [G.index_damage_program(rng, nrec=rng.choice([1, 2, 3]), flips=(120 if q else "all"),
                                    cuts=("all" if not q else 120))
             for _ in range(8 if q else 24)]
    if q:
        progs.append(G.index_damage_program(rng, nrec=2, flips=0, cuts="all"))
    agg = RN.run_batches("C06", RN.chunk(progs, 1), jobs=jobs)
    return {"mc": mc, "agg": agg, "samples": [progs[0]["steps"][:10]],
            "rule": "real buckets of 1-3 records (multi-byte UTF-8 keys/metadata); every cut length (thorough: and "
                    "every single-bit flip); inserted garbage / NUL / invalid UTF-8 lines at every line boundary; "
                    "removed newlines, duplicated and swapped lines, random overwrites; each followed by lookups "
                    "through a sync and an async reader, listings, and for a sample further appends; the lexer "
                    "alpha of the reference classifies the damaged bytes, TLC derives lookups and listings",
            "coverage_extra": {"exhaustive_part_impl": "all cut lengths of the sampled buckets; thorough: all single-bit flips"}}


def _mask_times(x, lo, hi):
    """default timestamps differ between runs: mask clock values of this run"""
    if isinstance(x, dict):
        return {k: (("NOW" if (k == "time" and isinstance(v, str) and v.isdigit() and lo <= int(v) <= hi) else
                     _mask_times(v, lo, hi))) for k, v in x.items()}
    if isinstance(x, list):
        return [_mask_times(v, lo, hi) for v in x]
    return x


def check_C12(tier, rng, jobs):
    q = tier == QUICK
    base = []
    one = ["S"]
    for _ in range(3 if q else 30):
        base.append(G.history_program(rng, 25 if q else 80, lanes=one, nkeys=4, ndata=3, removal_weight=0.25,
                                      bulk=True, full_opts=True, algos=("sha256", "sha1")))
        base.append(G.roundtrip_program(rng, 8 if q else 25, lanes=one))
        base.append(G.commit_program(rng, 8 if q else 25, lanes=one))
        base.append(G.retrieve_program(rng, 6 if q else 20, lanes=one))
        base.append(G.link_program(rng, 4 if q else 12, lanes=one))
        # keys sharing one content file, heavy on all four removals: error paths of removals
        # (content already gone, bucket already gone) must agree across the flavours too
        base.append(G.history_program(rng, 30 if q else 80, lanes=one, nkeys=3, ndata=1, removal_weight=0.55,
                                      bulk=True, observe_every=2))
    base.append(G.index_damage_program(rng, lanes=one, nrec=2, flips=40, cuts=60))
    base += _mixed(tier, rng, lanes=one)[:2 if q else 20]
    for p_ in base:
        for st_ in p_["steps"]:
            st_.pop("cancel", None)     # (a cancelled write future has no blocking counterpart)
            st_.pop("split", None)      # (how many buffers a scatter read fills differs legitimately)
    variants = {
        "S": lambda i, st: "S", "Aa": lambda i, st: "Aa", "Ta": lambda i, st: "Ta",
        "mix": lambda i, st: ["S", "Aa", "Ta", "As", "Ts"][i % 5],
    }
    names = list(variants)
    batches = []
    for p in base:
        for v in names:
            batches.append([G.with_lanes(p, variants[v])])
    t_lo = int(time.time() * 1000) - 60000
    agg = RN.run_batches("C12", batches, opts={"keep_results": True}, jobs=jobs)
    t_hi = int(time.time() * 1000) + 60000
    # product comparison: per-step results and final projections of the variants must be equal
    res, fin = agg.pop("results"), agg.pop("finals")
    ncmp = 0
    for pi in range(len(base)):
        group = [(names[vi], _mask_times(res[pi * len(names) + vi][0], t_lo, t_hi),
                  _mask_times(fin[pi * len(names) + vi][0], t_lo, t_hi)) for vi in range(len(names))]
        ref = group[0]
        for (vn, r, f) in group[1:]:
            for si, (a, b) in enumerate(zip(ref[1], r)):
                ncmp += 1
                if a != b:
                    agg["divs"].append({"what": "flavour", "line": si, "props": ["C12"],
                                        "event": {"ev": "call", "op": base[pi]["steps"][si]},
                                        "exp": a, "obs": b, "variant": vn,
                                        "trace": None, "programs": _save_prog("C12", pi, base[pi], vn, variants)})
                    break
            if ref[2] != f:
                agg["divs"].append({"what": "flavour_final", "props": ["C12"], "variant": vn,
                                    "exp": None, "obs": None, "event": None,
                                    "trace": None, "programs": _save_prog("C12", pi, base[pi], vn, variants)})
    return {"mc": [], "agg": agg, "samples": [base[0]["steps"][:8]],
            "rule": "every program (histories with all option combinations, round trips, commits with declared "
                    "size/integrity, retrievals of damaged content, link_to, index damage) is executed in three pure "
                    "flavours {sync build, async-std async API, tokio async API} and in a mixed form on one "
                    "directory; each execution is validated by TLC against the same deterministic contract, and "
                    "per-step results and final projections are compared across the flavours (default timestamps masked)",
            "coverage_extra": {"cross_flavour_step_comparisons": ncmp},
            "needs_mc_from": "C05"}


def _save_prog(pid, pi, prog, vn, variants):
    d = os.path.join(WORK, pid)
    os.makedirs(d, exist_ok=True)
    path = os.path.join(d, "diverging_%d_%s.json" % (pi, vn))
    with open(path, "w") as f:
        json.dump([G.with_lanes(prog, variants["S"]), G.with_lanes(prog, variants[vn])], f)
    return path


def check_C17(tier, rng, jobs):
    q = tier == QUICK
    progs = [G.history_program(rng, 20 if q else 60, nkeys=5, ndata=4, removal_weight=0.2, bulk=True,
                               full_opts=True, algos=tuple(G.ALGOS)) for _ in range(8 if q else 80)]
    progs += [G.roundtrip_program(rng, 8 if q else 20) for _ in range(6 if q else 60)]
    agg = RN.run_batches("C17", RN.chunk(progs, 2), opts={"layout": True, "exact": True}, jobs=jobs)
    # reference writes / library reads
    rprogs = [G.refwrite_program(rng, 10 if q else 30) for _ in range(12 if q else 120)]
    agg2 = RN.run_batches("C17r", RN.chunk(rprogs, 2), opts={"exact": True, "also": ["C17"]}, jobs=jobs)
    for k in ("traces", "events", "calls", "states", "transitions", "programs"):
        agg[k] += agg2[k]
    agg["cases"] |= agg2["cases"]
    agg["divs"] += agg2["divs"]
    return {"mc": [], "agg": agg, "samples": [rprogs[0]["steps"][:6]],
            "rule": "library writes / reference reads: after every call the bytes a bucket grew by and every new "
                    "content path are handed to TLC (TraceLayout.tla) with hashlib's digests and must satisfy "
                    "IsRecordLine / BucketPath / ContentPath of Layout.tla, the reference reader's projection must "
                    "equal the ghost state line by line (exact mode), nothing else may appear under the root; "
                    "reference writes / library reads: caches produced by the independent writer (all SHA "
                    "algorithms, hostile keys, tombstones, multi-record buckets) are looked up, read and listed "
                    "through all lanes and must equal the specification's verdict",
            "coverage_extra": {"layout_events_validated": agg.get("layout_events", 0)},
            "assumptions": ["the reference implementation is ours (transcribed from the specification), not npm cacache"],
            "needs_mc_from": "C10"}


def check_C20(tier, rng, jobs):
    q = tier == QUICK
    one = ALL_LANES
    progs = []
    for _ in range(2 if q else 20):
        progs.append(G.history_program(rng, 20 if q else 60, nkeys=4, ndata=3, bulk=True, full_opts=True))
        progs.append(G.roundtrip_program(rng, 8 if q else 25))
        progs.append(G.commit_program(rng, 10 if q else 30))
        progs.append(G.abandon_program(rng, 8 if q else 25))
        progs.append(G.retrieve_program(rng, 6 if q else 20))
        progs.append(G.link_program(rng, 4 if q else 12))
        progs.append(G.commit_program(rng, 2 if q else 5, big=True))
    progs.append(G.index_damage_program(rng, nrec=2, flips=60, cuts=80))
    progs.append(G.cleared_writer_program(rng))
    progs += [G.cancel_program(rng) for _ in range(2 if q else 12)]
    progs += [G.abandon_program(rng, 10 if q else 30) for _ in range(4 if q else 30)]
    progs += _mixed(tier, rng)
    agg = RN.run_batches("C20", RN.chunk(progs, 2), opts={"oddroot": True}, jobs=jobs)
    hprogs = [G.hostile_state_program(rng) for _ in range(14 if q else 120)]
    agg2 = RN.run_batches("C20h", RN.chunk(hprogs, 1), opts={"total": True}, jobs=jobs)
    full_ok = _fullfs_available()
    if full_ok:
        fprogs = [G.fullfs_program(rng, l) for l in (("S",), ("As", "Aa"), ("Ts", "Ta"))] * (1 if q else 4)
        _merge(agg2, RN.run_batches("C20full", RN.chunk(fprogs, 1), opts={"total": True, "fullfs": 4096}, jobs=jobs))
    for k in ("traces", "events", "calls", "states", "transitions", "programs"):
        agg[k] += agg2[k]
    agg["cases"] |= agg2["cases"]
    agg["divs"] += agg2["divs"]
    agg["anomalies"] += agg2["anomalies"]
    return {"mc": [], "agg": agg, "samples": [hprogs[0]["steps"][:6]],
            "rule": "every call of a cross-section of all other checks' programs (declared sizes delivered in several "
                    "chunks or with more/fewer bytes, zero-length data, damaged content and buckets, rejected commits, "
                    "abandoned writers) plus programs on directory states outside the model (bucket path is a "
                    "directory, content path is a directory, tmp / index-v5 / content-v2 is a file, root removed) runs "
                    "under catch_unwind and a 30 s watchdog; the trace specification has no action producing a "
                    "panic, hang or dead process, so any such outcome is rejected by TLC",
            "coverage_extra": {"anomalies_seen": len(agg["anomalies"]), "full_file_system_programs_run": bool(full_ok)},
            "needs_mc_from": "C02"}


def _fs_mc(pid, tier):
    """model checking side of the system-call level properties (CacacheFS.tla via MC_FS.tla)"""
    q = tier == QUICK
    wd = os.path.join(WORK, pid, "mc_fs")
    runs = []
    w, to = (8, 900) if q else (14, 3000)
    if pid in ("C03", "C04"):
        cfg = M.fs_cfg(os.path.join(wd, "crash.cfg"), 2 if q else 3, "MCOpsLinkNoRH", 2 if q else 3, True, 0,
                       ["ContentAtomic", "NoPartialRecord", "Resolvable", "CrashAtomic", "TmpPrivate"])
        runs.append(M.check_model("MC_FS", cfg, wd, workers=w, timeout=to))
    if pid == "C07":
        cfg = M.fs_cfg(os.path.join(wd, "conc.cfg"), 2 if q else 3, "MCOpsLink", 2 if q else 3, False, 0,
                       ["ContentAtomic", "NoPartialRecord", "TmpPrivate", "Serializable"])
        runs.append(M.check_model("MC_FS", cfg, wd, workers=w, timeout=to))
    if pid == "C13":
        cfg = M.fs_cfg(os.path.join(wd, "fault.cfg"), 2 if q else 3, "MCOpsLinkNoRH", 2 if q else 3, False, 1 if q else 2,
                       ["ContentAtomic", "Resolvable", "Truthful", "TmpPrivate"])
        runs.append(M.check_model("MC_FS", cfg, wd, workers=w, timeout=to))
    if pid == "C09":
        # the multi-step bulk deletions racing with single-call operations (CacacheFSBulk.tla)
        cfg = M.bulk_cfg(os.path.join(wd, "bulk.cfg"), 2 if q else 3, 2 if q else 3,
                         ["ContentAtomic", "NoPartialRecord", "WritersReturn"],
                         ["OtherBucketsUntouched", "ClearedOnlyWhatWasSeen"])
        runs.append(M.check_model("MC_FSBulk", cfg, wd, workers=w, timeout=to))
    if pid == "C07" and not q:
        # documentation, not a gate: TLC exhibits why remove_fully / clear are excluded from the
        # serialisability claim (EXPECTED to find a counterexample)
        cfg = M.bulk_cfg(os.path.join(wd, "bulk_serial.cfg"), 3, 3, ["SerializableB"])
        v, res = M.find_model_counterexample("MC_FSBulk", cfg, wd, workers=w, timeout=to)
        runs.append({"module": "MC_FSBulk", "cfg": "bulk_serial.cfg", "states": res["distinct"],
                     "transitions": res["generated"], "wall": round(res["wall"], 1),
                     "expected_counterexample_found": v == "SerializableB"})
    if pid == "C20" and not q:
        cfg = M.fs_cfg(os.path.join(wd, "live.cfg"), 2, "MCOpsWrite", 2, False, 1, [], ["Terminates"], fair=True)
        runs.append(M.check_model("MC_FS", cfg, wd, workers=w, timeout=to))
    return runs


def check_C03(tier, rng, jobs):
    from . import fsplans as F
    q = tier == QUICK
    variants = F.write_variants(rng, tier)
    refs = [F.scenario_for_write(rng, v, i) for i, v in enumerate(variants)]
    ragg = F.run_fs_batches("C03ref", RN.chunk(refs, 4), "conc", jobs=jobs)
    scen = []
    for sc, inf in zip(refs, ragg["infos"]):
        scen += F.crash_scenarios(sc, inf["calls"], rng, torn_areas=("tmp",),
                                  every_byte_max=64 if q else 4096)
    agg = F.run_fs_batches("C03", RN.chunk(scen, 100), "crash", jobs=jobs)
    # a data write that the kernel cuts short (and that the caller then completes) must still
    # end in a content file that matches its address
    shorts = []
    for sc, inf in zip(refs, ragg["infos"]):
        for k, c in enumerate(inf["calls"]):
            if c["name"] in ("write", "pwrite64") and c["area"] == "tmp" and c["count"] > 1:
                for n in sorted({1, c["count"] // 2, c["count"] - 1}):
                    shorts.append(F.with_plan(sc, {"kind": "short", "at": k, "n": n}))
    sagg = F.run_fs_batches("C03s", RN.chunk(shorts, 60), "conc", jobs=jobs)
    for a in (ragg, sagg):
        for k in ("traces", "events", "calls", "states", "transitions", "programs", "sys_calls"):
            agg[k] += a[k]
        agg["cases"] |= a["cases"]
        agg["divs"] += a["divs"]
    scen = scen + shorts
    kinds = {}
    for s_ in scen:
        kinds[s_["plan"]["kind"]] = kinds.get(s_["plan"]["kind"], 0) + 1
    # at API level: whatever a writer went through (odd chunkings, flushes, cancelled write
    # futures, provided trait methods), the file under the address it returns holds exactly the
    # bytes of that address (the directory projection after every call is compared by TLC)
    aprogs = [G.roundtrip_program(rng, 8 if q else 25) for _ in range(6 if q else 60)] + _mixed(tier, rng)
    aprogs += [G.cancel_program(rng) for _ in range(1 if q else 10)]
    _merge(agg, RN.run_batches("C03api", RN.chunk(aprogs, 2 if q else 4), jobs=jobs))
    return {"mc": _fs_mc("C03", tier), "agg": agg, "samples": [scen[5]["plan"], scen[-1]["plan"], variants[0]],
            "rule": "for each write variant (one-shot / streamed, keyed / by address, plain and memory-mapped, "
                    "0 B..1 MiB+1, cold and warm cache, overwrite of an existing address, rejected commit; sync, "
                    "async-std, tokio) the process is killed before every visible system call and each data write "
                    "to the temp file is torn at every length (small) or at {0,1,half,n-1}+random lengths (large); "
                    "ContentAtomic is evaluated by TLC on the projection after EVERY system call and after the kill",
            "coverage_extra": {"kill_and_torn_runs": kinds, "system_calls_stepped": agg["sys_calls"],
                               "exhaustive_part_impl": "every kill point of every listed write variant; every torn length of data writes <= 64 B (quick) / 4096 B (thorough)"},
            "fs": True}


def check_C04(tier, rng, jobs):
    from . import fsplans as F
    q = tier == QUICK
    refs = F.keyed_op_scenarios(rng, tier)
    ragg = F.run_fs_batches("C04ref", RN.chunk(refs, 3), "conc", jobs=jobs)
    scen = []
    for sc, inf in zip(refs, ragg["infos"]):
        allb = (not q) or sc["variant"]["lane"] == "S" or sc["variant"]["kind"] in ("first_meta", "remove")
        longk = sc["variant"]["kind"].endswith("_long")
        s_ = F.crash_scenarios(sc, inf["calls"], rng, torn_areas=("index",), torn_every=allb and not (q and longk))
        if q and not allb:
            s_ = [x for x in s_ if x["plan"]["kind"] == "crash" or x["plan"]["n"] % 7 == 0]
        if q and longk:
            # (the long warm-up is costly: in the quick tier only the kill points of the index phase -
            # the last calls - and the sampled torn lengths are kept for these variants)
            ncalls = len(inf["calls"])
            s_ = [x for x in s_ if x["plan"]["kind"] != "crash" or x["plan"]["at"] >= ncalls - 5]
        scen += s_
    agg = F.run_fs_batches("C04", RN.chunk(scen, 150), "crash", jobs=jobs)
    for k in ("traces", "events", "calls", "states", "transitions", "programs", "sys_calls"):
        agg[k] += ragg[k]
    agg["cases"] |= ragg["cases"]
    agg["divs"] += ragg["divs"]
    kinds = {}
    for s_ in scen:
        kinds[s_["plan"]["kind"]] = kinds.get(s_["plan"]["kind"], 0) + 1
    if _fullfs_available():
        # after a process died in the middle of a write, LATER processes with the same process id
        # (PID 1 of a fresh pid namespace, as after a container restart) write the key again
        pprogs = [G.pid1_program(rng) for _ in range(1 if q else 6)]
        _merge(agg, RN.run_batches("C04pid1", RN.chunk(pprogs, 1), opts={"also": ["C04"]}, jobs=jobs))
    mc = [_mc_index("C04", tier, 3, 1)]
    return {"mc": mc + _fs_mc("C04", tier), "agg": agg, "samples": [scen[3]["plan"], scen[-1]["plan"], refs[0]["variant"]],
            "rule": "first writes, overwrites, tombstone removals and full removals of a key with multi-byte UTF-8 in "
                    "key and metadata, next to another key; the process is killed before every visible system call and "
                    "the index append is torn at EVERY byte length (cuts inside code points included); TLC checks on the "
                    "post-crash projection that the key reads as exactly the old or exactly the new entry, the other "
                    "key is unchanged and a visible entry has its content; a continuation (lookups in three flavours, "
                    "listing, re-write, removal) then runs on the post-crash directory and is validated against the contract",
            "coverage_extra": {"kill_and_torn_runs": kinds, "system_calls_stepped": agg["sys_calls"],
                               "exhaustive_part_impl": "every kill point; every byte length of the index append (all lanes in thorough; sync lane + sampled lengths elsewhere in quick)"},
            "fs": True}


def check_C13(tier, rng, jobs):
    from . import fsplans as F
    q = tier == QUICK
    refs = F.fault_op_scenarios(rng, tier)
    ragg = F.run_fs_batches("C13ref", RN.chunk(refs, 3), "conc", resolvable=False, jobs=jobs)
    scen_res, scen_nores = [], []
    for sc, inf in zip(refs, ragg["infos"]):
        ss = F.fault_scenarios(sc, inf["calls"], rng, pairs=not q)
        (scen_res if sc.get("resolvable", True) else scen_nores).extend(ss)
    agg = F.run_fs_batches("C13", RN.chunk(scen_res, 120), "fault", resolvable=True, jobs=jobs)
    agg2 = F.run_fs_batches("C13n", RN.chunk(scen_nores, 50), "fault", resolvable=False, jobs=jobs)
    for a in (ragg, agg2):
        for k in ("traces", "events", "calls", "states", "transitions", "programs", "sys_calls"):
            agg[k] += a[k]
        agg["cases"] |= a["cases"]
        agg["divs"] += a["divs"]
    # a file system that is full FOR REAL (each co-process on a private 4 MiB tmpfs): every write
    # entry point with data that does not fit, then again after space was freed - every call
    # answers (an ENOSPC the kernel raises inside a page fault cannot be injected at a system call)
    full_ok = _fullfs_available()
    if full_ok:
        fprogs = [G.fullfs_program(rng, l) for l in (("S",), ("As", "Aa"), ("Ts", "Ta"))] * (1 if q else 6)
        fagg = RN.run_batches("C13full", RN.chunk(fprogs, 1), opts={"total": True, "fullfs": 4096, "also": ["C13"]}, jobs=jobs)
        _merge(agg, fagg)
    kinds = {}
    for s_ in scen_res + scen_nores:
        key = "%s:%s" % (s_["plan"]["kind"], s_["plan"].get("errno", s_["plan"].get("then")))
        kinds[key] = kinds.get(key, 0) + 1
    return {"mc": _fs_mc("C13", tier), "agg": agg,
            "samples": [scen_res[0]["plan"], scen_res[len(scen_res) // 2]["plan"], refs[0]["variant"]],
            "rule": "for each operation (keyed / by-address / streamed memory-mapped writes, overwrite, read by key and "
                    "address, metadata, checked copy and hard link, remove, remove_hash, list) on each of three flavours: "
                    "a reference run under the tracer, then one run per (visible system call i, applicable errno in "
                    "{EIO, ENOSPC, EACCES, EMFILE}) and per short write followed by failure (thorough: pairs of faults); "
                    "TLC checks on every projection that only complete files exist, and at the end that the call "
                    "returned an error or a truthful success, other entries are untouched and the faulted key is "
                    "unchanged or fully written; the same call is then repeated without fault and must succeed",
            "coverage_extra": {"fault_runs": kinds, "system_calls_stepped": agg["sys_calls"],
                               "full_file_system_programs_run": bool(full_ok),
                               "exhaustive_part_impl": "every visible system call of every listed operation x every applicable errno, one at a time"},
            "level": "model_checking", "fs": True}


def check_C07(tier, rng, jobs):
    from . import fsplans as F
    q = tier == QUICK
    refs, _ = F.conc_scenarios(rng, tier)
    # reference runs (sequential A then B) give the number of visible calls of each process
    ragg = F.run_fs_batches("C07ref", RN.chunk(refs, 6), "conc", jobs=jobs)
    scen = []
    for sc, inf in zip(refs, ragg["infos"]):
        na = sum(1 for c in inf["calls"] if c["p"] == 0)
        nb = sum(1 for c in inf["calls"] if c["p"] == 1)
        if "w11H" in sc["variant"]["pair"]:
            # (every snapshot re-reads a 2 MiB bucket: the reference run already shows whether the
            # record is ONE append; a few schedules around the append suffice)
            scen += F.schedules_for(sc, na, nb, rng, per_i=1, max_i=2 if q else 6)
            continue
        scen += F.schedules_for(sc, na, nb, rng, per_i=2 if q else 5, max_i=8 if q else None)
    if not q:
        # triples with random schedules
        for _ in range(400):
            a, b = rng.sample(refs, 2)
            sc = dict(a)
            sc["procs"] = a["procs"] + [b["procs"][0]]
            sc["plan"] = {"kind": "schedule", "order": [rng.randrange(3) for _ in range(rng.randrange(0, 60))]}
            scen.append(sc)
    # specification -> implementation: behaviours of CacacheFS.tla (TLC simulation of MC_FSSched)
    # as schedules of three real processes
    mscen, minfo = F.model_schedules(rng, tier, 45 if q else 600)
    nsched = len(scen)
    scen += mscen
    agg = F.run_fs_batches("C07", RN.chunk(scen, 150), "conc", jobs=jobs)
    minf = [i for i in agg["infos"] if i.get("model_steps") is not None]
    minfo.update({"behaviours_run": len(minf),
                  "labelled_steps_realised": sum(i["model_steps"][0] for i in minf),
                  "labelled_steps_not_realised": sum(i["model_steps"][1] for i in minf),
                  "results_as_predicted_by_the_specification": sum(1 for i in minf if i.get("model_results_agree"))})
    for k in ("traces", "events", "calls", "states", "transitions", "programs", "sys_calls"):
        agg[k] += ragg[k]
    agg["cases"] |= ragg["cases"]
    agg["divs"] += ragg["divs"]
    agg["histories"] = agg.get("histories", 0) + ragg.get("histories", 0)
    # lookups racing with appenders, without a bound on readers, appends or read sizes: TLAPS
    # (IndexReaders.tla: a reader linearizes at its end-of-file read), and the same module on a
    # small instance by TLC (the proof's definitions are not vacuous: Finish is reached)
    rd = [_tlaps_index("C07", "IndexReaders", 150),
          M.check_model("MC_Readers", "MC_Readers.cfg", os.path.join(WORK, "C07", "mc_readers"), workers=4, timeout=600)]
    return {"mc": _fs_mc("C07", tier) + rd, "agg": agg,
            "samples": [scen[1]["plan"], scen[1]["variant"], scen[-1]["plan"]],
            "rule": "pairs (thorough: also triples) of operations from {write same key, write other key with identical "
                    "content, streamed write, write_hash, read, read_hash, metadata, remove, remove_hash, exists, list} on "
                    "cold and warm caches, each as its own process of a random flavour, interleaved at the granularity "
                    "of visible system calls: process A runs i calls, B runs j calls, then they alternate (all i, "
                    "sampled j); after every call TLC checks ContentAtomic and NoPartialRecord and the step rules "
                    "(append-only buckets, complete content only); for every run TLC searches a serial order of the "
                    "operations that reproduces every result and the final projection (SerialAPI.tla); in addition "
                    "behaviours of CacacheFS.tla generated by TLC (MC_FSSched) are replayed as schedules of three "
                    "real processes - each labelled action lets its process run up to the system call it stands "
                    "for - and validated the same way, every one of them also by TraceFS2 (action by action)",
            "coverage_extra": {"schedules": nsched, "histories_explained": agg.get("histories", 0),
                               "system_calls_stepped": agg["sys_calls"],
                               "spec_behaviours_replayed_as_schedules": minfo,
                               "l2_runs_bound_to_CacacheFS": agg.get("l2_runs", 0), "l2_drift": agg.get("l2_drift", 0)},
            "fs": True}


def check_C15(tier, rng, jobs):
    from . import fsplans as F
    q = tier == QUICK
    scen = F.confinement_scenarios(rng, tier)
    agg = F.run_fs_batches("C15", RN.chunk(scen, 12), "conc", resolvable=False, jobs=jobs)
    # at API level: the external files (link targets, extraction destinations) - their bytes AND,
    # once their owner has set them, their permission bits - are part of the projection TLC
    # compares after every call: nothing a call was not asked to write may change
    aprogs = [G.link_program(rng, 6 if q else 15) for _ in range(4 if q else 40)]
    aprogs += [G.retrieve_program(rng, 6 if q else 15) for _ in range(4 if q else 40)]
    _merge(agg, RN.run_batches("C15api", RN.chunk(aprogs, 2), jobs=jobs))
    # confusable keys are distinct, independent entries (API level)
    progs = []
    pairs = [("x" * 300 + "a", "x" * 300 + "b"), ("k ", "k"), (" k", "k"), ("k\u0000", "k\u0000\u0000"),
             ("key", "Key"), ("caf\u00e9", "cafe\u0301"), ("a/b", "a\\b"), ("../x", "x"), ("nul\u0000", "nul"),
             ("", " "), (".", ".."), ("k", "k\n"), ("tab\t", "tab"), ("\u00e9", "e\u0301")]
    for i in range(4 if q else 40):
        prog = {"keys": {}, "blobs": {}, "steps": []}
        ks, ds = [], []
        for (a, b) in rng.sample(pairs, 4):
            for s_ in (a, b):
                ks.append(G.add_key(prog, s_))
                ds.append(G._mk_data(prog, rng, rng.randrange(1, 40)))
        order = list(range(len(ks)))
        rng.shuffle(order)
        for j in order:
            prog["steps"].append({"op": "write", "lane": rng.choice(ALL_LANES), "key": ks[j], "data": ds[j], "algo": "sha256"})
        G.observe_all(prog, rng, ALL_LANES, ks, [], read=True)
        for j in rng.sample(order, 3):
            prog["steps"].append({"op": "remove", "lane": rng.choice(ALL_LANES), "key": ks[j]})
            G.observe_all(prog, rng, ALL_LANES, ks, [], read=True)
        progs.append(prog)
    agg2 = RN.run_batches("C15a", RN.chunk(progs, 2), opts={"relcache": True, "oddroot": True}, jobs=jobs)
    for k in ("traces", "events", "calls", "states", "transitions", "programs"):
        agg[k] += agg2[k]
    agg["cases"] |= agg2["cases"]
    for d in agg2["divs"]:
        d["props"] = sorted(set(d.get("props") or []) | {"C15"})
    agg["divs"] += agg2["divs"]
    return {"mc": [], "agg": agg, "samples": [scen[0]["variant"], scen[-1]["variant"]],
            "rule": "every operation of the API on keys from a hostile / confusable set (path-like, '..', NUL, control, "
                    "case and NFC/NFD pairs, 4 kB) and random Unicode, each as a traced process: every path-taking or "
                    "descriptor-writing system call anywhere is classified; TLC requires that no mutating call lies "
                    "outside the cache root and the given destination, that read-only operations issue no mutating call "
                    "and change nothing, and (TraceLayout) that every path touched under index-v5 / content-v2 is a "
                    "prefix of the bucket path of SHA-1(key) / the content path of the digest, both from hashlib; "
                    "confusable keys are written, read and removed as independent entries (TraceAPI)",
            "coverage_extra": {"system_calls_stepped": agg["sys_calls"], "touched_paths_checked": agg.get("touches", 0)},
            "fs": True, "needs_mc_from": "C05"}


CHECKS = {"C15": check_C15, "C07": check_C07, "C13": check_C13, "C04": check_C04, "C03": check_C03, "C12": check_C12, "C17": check_C17, "C20": check_C20, "C19": check_C19, "C06": check_C06, "C01": check_C01, "C16": check_C16, "C18": check_C18, "C02": check_C02, "C05": check_C05, "C08": check_C08, "C09": check_C09, "C10": check_C10,
          "C11": check_C11, "C14": check_C14}


# --------------------------------------------------------------------------------------

def _signature(d):
    """identifies a divergence by what failed: the specific input class / call site / rule"""
    ev = d.get("event") or {}
    op = ev.get("op") or {}
    name = d.get("name") or (op.get("op") if isinstance(op, dict) else None) or d.get("rule", "")
    obs = d.get("obs")
    return "%s:%s:%s" % (d.get("what"), name, obs.get("e", "") if isinstance(obs, dict) else "")


def finish(pid, tier, seed, t0, r):
    agg = r["agg"]
    known = [k for k in load_known_findings() if k.get("property") == pid and k.get("status") == "known"]
    gating, other, knownhits = [], [], []
    for d in agg["divs"]:
        if pid in (d.get("props") or []):
            sig = _signature(d)
            k = next((k for k in known if k["signature"] == sig), None)
            if k:
                knownhits.append((k, d))
            else:
                gating.append(d)
        else:
            other.append(d)
    mc = r.get("mc", [])
    cov = {
        "states": sum(m["states"] for m in mc) + agg["states"],
        "transitions": sum(m["transitions"] for m in mc) + agg["transitions"],
        "traces_validated_against_impl": agg["traces"],
        "samples": r.get("samples") or [list(c) for c in sorted(agg["cases"])[:5]],
        "model_checking_runs": mc,
        "trace_events_validated": agg["events"],
        "api_calls_executed": agg["calls"],
        "programs": agg["programs"],
        "evaluations": agg["calls"] + agg.get("sys_calls", 0),
        "distinct_nontrivial": len(agg["cases"]),
        "rule": r.get("rule", ""),
        "exhaustive": False,
        "exhaustive_part": "the TLC configurations listed under model_checking_runs were enumerated "
                           "completely for their constants; the conformance runs are sampled",
        "divergences_attributed_to_other_properties": [
            {"props": d.get("props"), "what": d.get("what"), "op": ((d.get("event") or {}).get("op") or {}).get("op")}
            for d in other[:20]],
    }
    cov.update(r.get("coverage_extra", {}))
    assumptions = ["digests are collision free on the inputs used (addresses are modelled as injective)",
                   "hashlib / json (Python) supply byte-level facts; TLC decides structure"] + r.get("assumptions", [])
    write_evidence(pid, tier, seed, cov, time.time() - t0, violations=len(gating), assumptions=assumptions)
    seen = set()
    for k, d in knownhits:
        if k["signature"] not in seen:
            seen.add(k["signature"])
            print("KNOWN-FINDING: property=%s %s" % (pid, k["what"]))
    if gating:
        shown = set()
        for d in gating:
            rp = d.get("programs") or d.get("trace")
            if rp in shown:
                continue
            shown.add(rp)
            ev = d.get("event") or {}
            log("divergence at %s line %s: what=%s%s op=%s exp=%s obs=%s" % (
                d.get("trace"), d.get("line"), d.get("what"), (":" + d["rule"]) if d.get("rule") else "",
                json.dumps(ev.get("op") or ev)[:300],
                json.dumps(d.get("exp"))[:400], json.dumps(d.get("obs"))[:400]))
            print("VIOLATION property=%s replay=%s" % (pid, rp))
        return 1
    return 0


def main(pid, tier, replay, jobs):
    t0 = time.time()
    os.environ["VERIF_TIER_EFFECTIVE"] = tier
    seed = seed_of()
    rng = random.Random(seed * 1000003 + sum(map(ord, pid)))
    try:
        if pid not in CHECKS:
            log("unknown property " + pid)
            return 2
        build()
        if replay:
            with open(replay) as f:
                programs = json.load(f)
            if isinstance(programs, dict) and "scenarios" in programs:
                from . import fsplans as F
                agg = F.run_fs_batches(pid + "_replay", [programs["scenarios"]], programs["mode"],
                                       resolvable=programs.get("resolvable", True), jobs=1)
                r = {"mc": [], "agg": agg, "samples": [programs["scenarios"][0]["plan"]], "rule": "replay of " + replay}
            else:
                agg = RN.run_batches(pid + "_replay", [programs], jobs=1)
                r = {"mc": [], "agg": agg, "samples": [programs[0]["steps"][:5]], "rule": "replay of " + replay}
            return finish(pid, tier, seed, t0, r)
        r = CHECKS[pid](tier, rng, jobs)
        rc = finish(pid, tier, seed, t0, r)
        log("%s %s: rc=%d wall=%.1fs traces=%d events=%d cases=%d" % (
            pid, tier, rc, time.time() - t0, r["agg"]["traces"], r["agg"]["events"], len(r["agg"]["cases"])))
        return rc
    except ToolError as e:
        log("TOOL ERROR: %s" % e)
        return 2
