"""Paths, TLC runner, evidence writer, known findings."""
import json
import os
import re
import shutil
import subprocess
import sys
import time

VERIF = os.path.dirname(os.path.dirname(os.path.abspath(__file__)))
SPEC = os.path.join(VERIF, "spec")
WORK = os.environ.get("VERIF_WORK") or os.path.join(VERIF, "work")
BUILD = os.path.join(VERIF, "build")
EVID = os.environ.get("VERIF_EVID") or os.path.join(VERIF, "evidence")
REPO = os.environ.get("VERIF_REPO", "/repo")
TLA_JAR = "/opt/veriftools/tla/tla2tools.jar"


class ToolError(Exception):
    """The machinery itself failed (build, TLC crash, timeout): exit 2, never 1."""


def build_tag():
    if REPO == "/repo":
        return "main"
    import hashlib
    return hashlib.md5((REPO + "\n").encode()).hexdigest()[:8]


def driver_path(flavour):
    return os.path.join(BUILD, "%s-%s" % (build_tag(), flavour), "debug", "cdrv")


def build(flavours=("sync", "plain", "asyncstd", "tokio")):
    r = subprocess.run([os.path.join(VERIF, "tools", "build")] + list(flavours),
                       capture_output=True, text=True)
    if r.returncode != 0:
        raise ToolError("build failed:\n" + r.stdout + r.stderr)


def fresh_dir(name):
    p = os.path.join(WORK, name)
    shutil.rmtree(p, ignore_errors=True)
    os.makedirs(p)
    return p


# ------------------------------------------------------------------------------- TLC

_STATS = re.compile(r"(\d+) states generated, (\d+) distinct states found")


def run_tlc(module, cfg, workdir, env=None, workers=1, timeout=600, extra=(), deque=False,
            heap="4g"):
    """Run TLC on spec/<module>.tla with spec/<cfg>; returns dict(out, generated, distinct, rc)."""
    os.makedirs(workdir, exist_ok=True)
    e = dict(os.environ)
    jopts = "-Xss1g -Xmx%s" % heap
    if deque:
        jopts += " -Dtlc2.tool.queue.IStateQueue=StateDeque"
    e["JAVA_TOOL_OPTIONS"] = jopts
    if env:
        e.update(env)
    cmd = ["timeout", str(timeout), "tlc", "-workers", str(workers), "-metadir",
           os.path.join(workdir, "meta"), "-cleanup", "-noGenerateSpecTE",
           "-config", cfg if os.path.isabs(cfg) else os.path.join(SPEC, cfg)] + list(extra) + [os.path.join(SPEC, module + ".tla")]
    t0 = time.time()
    r = subprocess.run(cmd, capture_output=True, text=True, env=e, cwd=SPEC)
    out = r.stdout + r.stderr
    shutil.rmtree(os.path.join(workdir, "meta"), ignore_errors=True)
    if r.returncode == 124:
        raise ToolError("TLC timed out after %ss on %s/%s" % (timeout, module, cfg))
    gen = dist = 0
    for m in _STATS.finditer(out):
        gen, dist = int(m.group(1)), int(m.group(2))
    return {"out": out, "generated": gen, "distinct": dist, "rc": r.returncode,
            "wall": time.time() - t0}


def tlc_ok(res):
    return "Model checking completed. No error has been found." in res["out"]


def tlc_violation(res):
    """Name of the violated invariant/property, or None."""
    m = re.search(r"Invariant (\w+) is violated", res["out"])
    if m:
        return m.group(1)
    m = re.search(r"Action property (\w+) is violated|Temporal properties were violated", res["out"])
    if m:
        return m.group(1) or "temporal"
    return None


def coverage_zero_actions(out, names):
    """With -coverage 1: which of the named actions were never taken (vacuity check)."""
    zero = []
    for n in names:
        m = re.search(r"<%s[ (].*?>: (\d+):(\d+)" % re.escape(n), out)
        if m and int(m.group(2)) == 0:
            zero.append(n)
    return zero


# -------------------------------------------------------------------------- evidence

def write_evidence(pid, tier, seed, coverage, wall, violations=0, assumptions=(),
                   level="model_checking"):
    os.makedirs(EVID, exist_ok=True)
    ev = {"property_id": pid, "tier": tier, "seed": int(seed), "level": level,
          "coverage": coverage, "assumptions": list(assumptions), "wall_s": round(wall, 2),
          "violations": int(violations)}
    p = os.path.join(EVID, pid + ".json")
    with open(p + ".tmp", "w") as f:
        json.dump(ev, f, indent=1, default=str)
    os.replace(p + ".tmp", p)
    return p


def load_known_findings():
    p = os.path.join(VERIF, "known_findings.json")
    if not os.path.exists(p):
        return []
    with open(p) as f:
        return json.load(f)["findings"]


def log(*a):
    print(*a, file=sys.stderr, flush=True)
