"""Scenarios for system-call level runs: crash points, torn writes, fault points, schedules."""
import json
import os
import re
import shutil
import time
import traceback
import concurrent.futures as cf

from . import l2 as L2
from . import trace as T
from .common import WORK, ToolError, run_tlc
from .fs import FsRun, reqs_for, abs_result
from .session import Session, run_program, load_universe


def run_scenario(sess, sc, first=False):
    """Execute one scenario on a fresh cache directory of the session.
    sc = {"universe": prog-like dict with keys/blobs, "warm": [steps], "procs": [step,...],
          "plan": {...}, "cont": [steps]}
    Returns dict(calls=[visible call classes of the traced phase], results=..., events=[...])"""
    if not first:
        sess.new_cache()
    load_universe(sess.u, sc["universe"])
    if sc.get("symlink_out"):
        # a symlink directly under the cache root pointing at a directory OUTSIDE the cache that
        # holds a file: clearing the cache must remove the link, never what it points at
        victim = os.path.join(sess.extdir, "victim-dir")
        os.makedirs(victim, exist_ok=True)
        with open(os.path.join(victim, "precious"), "wb") as f:
            f.write(b"outside the cache")
        os.symlink(victim, os.path.join(sess.root, "evil-link"))
    xtmp = None
    if sc.get("warm"):
        run_program(sess, {"keys": {}, "blobs": {}, "steps": sc["warm"]})
    if sc.get("xdev_tmp"):
        # from here on <cache>/tmp lives on another file system (a symlink into /dev/shm): the
        # rename that publishes content cannot be a rename
        import tempfile
        xtmp = tempfile.mkdtemp(prefix="verif-xtmp-", dir=sc["xdev_tmp"])
        shutil.rmtree(os.path.join(sess.root, "tmp"), ignore_errors=True)
        os.symlink(xtmp, os.path.join(sess.root, "tmp"))
    if sc.get("hostile"):
        # a directory state outside the abstract model, made before the traced phase: <cache>/tmp
        # is a regular file / a dangling symbolic link / <cache>/content-v2 is a regular file.
        # Whatever the call does then (an error is expected), it does it inside the cache.
        os.makedirs(sess.root, exist_ok=True)
        name = {"tmp_file": "tmp", "tmp_dangling": "tmp", "content_file": "content-v2"}[sc["hostile"]]
        tp = os.path.join(sess.root, name)
        if os.path.islink(tp) or os.path.isfile(tp):
            os.unlink(tp)
        else:
            shutil.rmtree(tp, ignore_errors=True)
        if sc["hostile"] == "tmp_dangling":
            os.symlink(os.path.join(sess.root, "no-such-dir", "x"), tp)
        else:
            with open(tp, "wb") as f:
                f.write(b"not a directory")
    fr = FsRun(sess.dir, sess)
    fr.emulate_clone = bool(sc.get("emulate_clone"))
    # every visible entry must have its content, unless this scenario itself removes content by
    # address (remove_hash, remove_fully, clear) or its warm-up did
    unres = {"remove_hash", "remove_fully", "clear"}
    fr.begin(resolvable=sc.get("resolvable", True)
             and not any(st["op"] in unres for st in sc["procs"])
             and not any(st["op"] in unres for st in sc.get("warm", [])),
             extra_roots=[xtmp] if xtmp else ())
    plan = sc["plan"]
    procs = sc["procs"]
    replies = {}
    kind = plan["kind"]

    def spawn(i):
        reqs, sop = reqs_for(sess, procs[i])
        replies[i] = fr.spawn(i, procs[i].get("lane", "S"), reqs, sop)
    if kind != "model":
        for i in range(len(procs)):
            spawn(i)
    info = {"steps": 0}

    def alive(i):
        r = replies[i]
        return r.get("exited") is None and not r.get("hang") and r.get("at") is not None

    def finish_all():
        guard = 0
        while any(alive(i) for i in replies):
            for i in list(replies):
                if alive(i):
                    replies[i] = fr.step(i)
                    guard += 1
            if guard > 20000:
                raise ToolError("scenario does not finish")

    if kind == "free":
        finish_all()
    elif kind in ("crash", "torn", "fault", "short"):
        p = plan.get("p", 0)
        k = 0
        while k < plan["at"] and alive(p):
            replies[p] = fr.step(p)
            k += 1
        if not alive(p):
            info["beyond"] = True           # the plan's position lies beyond the run
            finish_all()
        elif kind == "crash":
            fr.kill()
        elif kind == "torn":
            fr.torn(p, plan["n"])
        elif kind == "fault":
            replies[p] = fr.fault(p, plan["errno"])
            if plan.get("second") is not None:
                j = 0
                while j < plan["second"]["after"] and alive(p):
                    replies[p] = fr.step(p)
                    j += 1
                if alive(p):
                    replies[p] = fr.fault(p, plan["second"]["errno"])
            finish_all()
        elif kind == "short":
            replies[p] = fr.short(p, plan["n"])
            if alive(p) and plan.get("then"):
                replies[p] = fr.fault(p, plan["then"])
            finish_all()
    elif kind == "schedule":
        for p in plan["order"]:
            if alive(p):
                replies[p] = fr.step(p)
        finish_all()
    elif kind == "model":
        # a behaviour of CacacheFS.tla (spec/MC_FSSched.tla) as a schedule: "start" spawns the
        # process (it stops before its first visible call), any other label lets the process run
        # until it has issued the call the action stands for
        realised = missed = 0
        for (p, a) in plan["steps"]:
            if a == "start":
                spawn(p)
                continue
            if p not in replies or not alive(p):
                missed += 1
                continue
            if a == "write_tmp":
                continue                    # user-space copy or any number of writes: not scheduled
            if a == "walk_visit":
                replies[p] = fr.step(p)     # one visible call of the directory walk
                realised += 1
                continue
            hit = False
            for _ in range(400):
                if not alive(p):
                    break
                replies[p] = fr.step(p)
                last = next((e for e in reversed(fr.events) if e["ev"] == "sys" and e["p"] == p), None)
                if last is not None and sched_class(last) == a:
                    hit = True
                    break
            realised += 1 if hit else 0
            missed += 0 if hit else 1
            if not hit:
                info.setdefault("model_missed", []).append(a)
        for i in range(len(procs)):
            if i not in replies:
                spawn(i)
        finish_all()
        info["model_steps"] = (realised, missed)
    else:
        raise ToolError("unknown plan kind " + kind)
    # abstract the results of finished processes
    for e in fr.events:
        if e["ev"] == "result" and not isinstance(e["res"], dict):
            e["res"] = abs_result(sess, fr.procs[e["p"]]["sop"], e["res"])
        elif e["ev"] == "result" and isinstance(e["res"], dict) and "ok" not in e["res"]:
            e["res"] = {"ok": False, "e": "DIED"}
    fr.end()
    if xtmp:
        shutil.rmtree(xtmp, ignore_errors=True)
        try:
            os.unlink(os.path.join(sess.root, "tmp"))
        except OSError:
            pass
    if sc.get("cont"):
        run_program(sess, {"keys": {}, "blobs": {}, "steps": sc["cont"]})
    last = None
    for e in fr.events:
        if e["ev"] == "sys":
            last = (e["name"], e["area"], e.get("action"))
        elif e["ev"] == "crash":
            break
    info["case"] = (kind, procs[0].get("lane", "S"), procs[0]["op"], procs[0].get("how", ""),
                    len(procs), last)
    info["events"] = fr.events
    info["calls"] = [e for e in fr.events if e["ev"] == "sys"]
    info["results"] = {e["p"]: e["res"] for e in fr.events if e["ev"] == "result"}
    return info


# which properties a broken rule speaks about (a rule that is broken in a run made for another
# property is reported in the evidence but does not gate that property's check)
RULE_PROPS = {
    "BucketStep": ["C07"],                 # a bucket changed by other than one whole-record append
    "NoPartialRecord": ["C07"],            # a partial record was observable
    "StoreStep": ["C03", "C09"],           # incomplete content published / content deleted by a non-remover
    "ContentAtomic": ["C03", "C07"], "ContentAtomicEnd": ["C03", "C13"],
    "ExtStep": ["C15", "C19"], "ExtTouched": ["C15"], "PathOutsideAreas": ["C15"], "ForeignEntryTouched": ["C15"],
    "ReadOnlyOpMutates": ["C15"], "OutsideMutation": ["C15"],
    "FailedOrReadChangesNothing": ["C13", "C15"],
    "RecordsResolvable": ["C04", "C13"], "RecordsResolvableEnd": ["C04", "C13"],
    "CrashLeft": [],                       # shape of what a kill left (model drift only; CrashAtomic decides)
    "CrashAtomic": ["C04", "C13"],
    "Truthful": ["C13"], "OthersUntouched": ["C13"], "Returned": ["C20", "C13"], "EndStable": ["C07"],
    "Hang": ["C20", "C13"],
    "TmpLeft": ["C14", "C13"],             # a temp file outlives the call (and the process) that made it
}


def validate_fs(events, lens, mode, resolvable, base, workdir):
    """Validate an FS-level trace with TLC; returns (info, divergences)"""
    path = base + ".fs.ndjson"

    def write(diag):
        with open(path, "w") as f:
            f.write(json.dumps({"ev": "init", "lens": lens, "mode": mode, "resolvable": resolvable,
                                "diag": diag}) + "\n")
            for e in events:
                f.write(json.dumps(e) + "\n")
    write(False)
    res = run_tlc("TraceFS", "TraceFS.cfg", workdir, env={"TRACE": path}, workers=1, timeout=1800, deque=True)
    out = res["out"]
    info = {"states": res["distinct"], "transitions": res["generated"], "trace": path}
    if '"ACCEPTED"' in out and "Error:" not in out:
        info["accepted"] = True
        return info, []
    info["accepted"] = False
    # diagnostic pass: name every broken rule
    write(True)
    res = run_tlc("TraceFS", "TraceFS_diag.cfg", workdir, env={"TRACE": path}, workers=1, timeout=1800, deque=True)
    dout = res["out"]
    divs = []
    for m in re.finditer(r'<<"RULE", "(\w+)", (\d+)>>', dout):
        rule, line = m.group(1), int(m.group(2))
        ev = events[line - 2] if 0 <= line - 2 < len(events) else None
        brief = {k: v for k, v in (ev or {}).items() if k != "snap"}
        divs.append({"what": "rule", "rule": rule, "line": line, "event": brief,
                     "props": RULE_PROPS.get(rule, [])})
    if not divs:
        m = re.search(r'"REJECTED", (\d+)', dout) or re.search(r'"REJECTED", (\d+)', out)
        if m:
            line = int(m.group(1))
            ev = events[line - 2] if 0 <= line - 2 < len(events) else None
            divs.append({"what": "rule", "rule": "unmatched", "line": line,
                         "event": {k: v for k, v in (ev or {}).items() if k != "snap"},
                         "props": ["C03", "C04", "C07", "C13", "C15"]})
        else:
            raise ToolError("TLC failed on FS trace %s:\n%s" % (path, out[-2500:]))
    write(False)
    return info, divs


def _run_fs_batch(args):
    bid, scenarios, workdir, mode, resolvable = args
    bdir = os.path.join(workdir, "b%d" % bid)
    shutil.rmtree(bdir, ignore_errors=True)
    os.makedirs(bdir)
    sess = Session(bdir)
    out = {"bid": bid, "scenarios": len(scenarios), "divs": [], "error": None}
    events = []
    nsys = 0
    fcases = set()
    hists = []
    emu = False
    touches = []
    l2runs = []
    try:
        infos = []
        for i, sc in enumerate(scenarios):
            inf = run_scenario(sess, sc, first=(i == 0))
            events += inf["events"]
            nsys += len(inf["calls"])
            if mode == "conc" and (len(sc["procs"]) > 1 or sc.get("serial")):
                hists.append(history_of(inf["events"]))
            emu = emu or bool(sc.get("emulate_clone"))
            if sc.get("allowed"):
                touches += touch_events(sess, sc, inf["events"])
            # L2 for every run in the thorough tier, for every third one in the quick tier
            if os.environ.get("VERIF_TIER_EFFECTIVE", "quick") != "quick" or (len(l2runs) % 3 == 0) \
                    or sc["plan"]["kind"] == "model":
                l2runs.append(L2.l2_events(inf["events"]))
            else:
                l2runs.append(None)
            infos.append({"calls": [{k: c[k] for k in ("name", "area", "file", "mut", "ret", "count", "p")}
                                    for c in inf["calls"]], "results": inf["results"], "beyond": inf.get("beyond")})
            if sc["plan"]["kind"] == "model":
                exp = sc["plan"].get("expect", {})
                got = {str(p_): bool(isinstance(r_, dict) and r_.get("ok")) for p_, r_ in inf["results"].items()}
                infos[-1]["model_steps"] = inf.get("model_steps")
                infos[-1]["model_missed"] = inf.get("model_missed", [])
                infos[-1]["model_results_agree"] = all(got.get(k) == v for k, v in exp.items())
            fcases.add(json.dumps(inf["case"]))
        sess.close()
        finfo, fdivs = validate_fs(events, sess.u.lens(), mode, resolvable, os.path.join(bdir, "trace"),
                                   os.path.join(bdir, "tlc"))
        path = os.path.join(bdir, "trace.ndjson")
        sess.write_trace(path)
        ainfo = T.validate_file(path, os.path.join(bdir, "tlc"))
        out.update({"fs_trace": finfo["trace"], "api_trace": path, "fs_events": len(events), "sys_calls": nsys,
                    "api_events": len(sess.trace), "calls": sess.ncalls,
                    "states": finfo["states"] + ainfo["states"],
                    "transitions": finfo["transitions"] + ainfo["transitions"],
                    "accepted": finfo["accepted"] and ainfo["accepted"], "infos": infos,
                    "cases": sorted(sess.cases) + [("fs", c) for c in sorted(fcases)]})
        divs = list(fdivs)
        if any(l2runs):
            # L2: the effect-carrying calls as behaviours of CacacheFS.tla
            l2info, drifts = L2.validate_l2(l2runs, os.path.join(bdir, "trace"), os.path.join(bdir, "tlc"))
            out["states"] += l2info["states"]
            out["transitions"] += l2info["transitions"]
            out["l2_runs"] = l2info["runs"]
            out["l2_drift"] = len(drifts)
            for dr in drifts:
                # (after an injected fault the run-time may legitimately deviate from the modelled
                # error path - async-std re-sends a buffered record when the file is dropped - so
                # drift in fault runs never gates)
                divs.append({"what": "l2", "rule": "NotAStepOfCacacheFS", "line": None, "event": dr["event"],
                             "props": [] if mode == "fault" else L2.drift_props(dr["event"]),
                             "l2_trace": dr.get("file") or l2info["trace"], "run": dr["run"]})
        if touches:
            lp = os.path.join(bdir, "touch.ndjson")
            with open(lp, "w") as f:
                f.write(json.dumps({"ev": "init"}) + "\n")
                for t in touches:
                    f.write(json.dumps(t) + "\n")
            linfo = T.validate_file(lp, os.path.join(bdir, "tlc"), module="TraceLayout", cfg="TraceLayout.cfg")
            out["states"] += linfo["states"]
            out["transitions"] += linfo["transitions"]
            out["touches"] = len(touches)
            if not linfo["accepted"]:
                ev = T.event_at(lp, linfo.get("line", 0)) or {}
                divs.append({"what": "rule", "rule": "TouchedPathNotDerivedFromHash", "line": linfo.get("line"),
                             "event": {"rel": ev.get("rel"), "name": ev.get("name")}, "props": ["C15", "C17"],
                             "touch_trace": lp})
        if hists:
            sinfo, bad = validate_serial(hists, sess.u.lens(), os.path.join(bdir, "trace"), os.path.join(bdir, "tlc"),
                                         reflink=emu)
            out["states"] += sinfo["states"]
            out["transitions"] += sinfo["transitions"]
            out["histories"] = len(hists)
            for bi in bad:
                divs.append({"what": "serial", "rule": "NotSerializable", "line": bi + 2,
                             "event": {"ops": [o["op"] for o in hists[bi]["ops"]],
                                       "res": [o["res"] for o in hists[bi]["ops"]]},
                             "props": ["C07"], "serial_trace": sinfo["trace"]})
        if not ainfo["accepted"]:
            from . import verdict as V
            adivs = V.collect_divergences(sess, os.path.join(bdir, "trace"), os.path.join(bdir, "tlc"))
            raw = open(path).read().splitlines()
            for d in adivs:
                lo, lr = V.last_call_before(raw, d.get("line", 1), with_res=True)
                ctx = {"last_op": lo, "last_res_ok": lr, "faulted": mode == "fault"}
                d["props"] = sorted(V.classify(d, ctx) | ({"C04"} if mode == "crash" else set())
                                    | ({"C13"} if mode == "fault" else set()))
            divs += adivs
        if divs:
            with open(os.path.join(bdir, "scenarios.json"), "w") as f:
                json.dump({"mode": mode, "resolvable": resolvable, "scenarios": scenarios}, f)
            for d in divs:
                d["trace"] = (d.get("l2_trace") if d.get("what") == "l2" else
                              finfo["trace"] if d.get("what") == "rule" else
                              d.get("serial_trace") if d.get("what") == "serial" else path)
                d["programs"] = os.path.join(bdir, "scenarios.json")
        out["divs"] = divs
    except ToolError as e:
        out["error"] = "tool: %s" % e
    except Exception:
        out["error"] = traceback.format_exc()
    finally:
        try:
            sess.close()
        except Exception:
            pass
        sess.remove_caches()
    return out


def run_fs_batches(name, batches, mode, resolvable=True, jobs=8):
    workdir = os.path.join(WORK, name)
    os.makedirs(workdir, exist_ok=True)
    args = [(i, b, workdir, mode, resolvable) for i, b in enumerate(batches)]
    if jobs <= 1 or len(args) <= 1:
        outs = [_run_fs_batch(a) for a in args]
    else:
        with cf.ProcessPoolExecutor(max_workers=jobs) as ex:
            outs = list(ex.map(_run_fs_batch, args))
    agg = {"traces": 0, "events": 0, "calls": 0, "states": 0, "transitions": 0, "cases": set(), "divs": [],
           "anomalies": [], "programs": 0, "sys_calls": 0, "infos": []}
    for o in outs:
        if o.get("error"):
            raise ToolError("fs batch %s failed: %s" % (o["bid"], o["error"]))
        agg["traces"] += 2
        agg["programs"] += o["scenarios"]
        agg["events"] += o["fs_events"] + o["api_events"]
        agg["calls"] += o["calls"]
        agg["sys_calls"] += o["sys_calls"]
        agg["states"] += o["states"]
        agg["transitions"] += o["transitions"]
        agg["cases"] |= {tuple(c) for c in o["cases"]}
        agg["divs"] += o["divs"]
        agg["infos"] += o["infos"]
        agg["histories"] = agg.get("histories", 0) + o.get("histories", 0)
        agg["touches"] = agg.get("touches", 0) + o.get("touches", 0)
        agg["l2_runs"] = agg.get("l2_runs", 0) + o.get("l2_runs", 0)
        agg["l2_drift"] = agg.get("l2_drift", 0) + o.get("l2_drift", 0)
    return agg


# ---------------------------------------------------------------------------------------
# planners
# ---------------------------------------------------------------------------------------
from . import gen as G

MIB = 1024 * 1024


def write_variants(rng, tier, lanes=("S", "Aa", "Ta", "P")):
    """the write variants whose every crash point is explored (C03); lane P - the blocking API of
    a build without the mmap feature - runs the variants with a DECLARED size only (where the
    memory map, or its absence, matters)"""
    q = tier == "quick"
    out = []
    for lane in lanes:
        sizes_small = [0, 7, 3000]
        for n in sizes_small:
            out.append({"lane": lane, "n": n, "how": "oneshot", "keyed": True})
        out.append({"lane": lane, "n": 40, "how": "oneshot", "keyed": False})
        out.append({"lane": lane, "n": 5000, "how": "streamed", "keyed": True, "chunks": 3})
        out.append({"lane": lane, "n": 600, "how": "streamed", "keyed": False, "chunks": 2, "declare": True})
        out.append({"lane": lane, "n": 600, "how": "streamed", "keyed": True, "chunks": 2, "declare": True,
                    "declare_wrong": 5})
        # by-address writers with a declared size other than what is written: the memory-mapped
        # file is longer (padding must never be published) or shorter (overflow to plain writes)
        out.append({"lane": lane, "n": 600, "how": "streamed", "keyed": False, "chunks": 2, "declare": True,
                    "declare_wrong": 3000})
        out.append({"lane": lane, "n": 600, "how": "streamed", "keyed": False, "chunks": 3, "declare": True,
                    "declare_wrong": -250})
        out.append({"lane": lane, "n": 0, "how": "streamed", "keyed": False, "chunks": 1, "declare": True,
                    "declare_wrong": 4096})
        # a declared size ABOVE the memory-map threshold with fewer bytes written (no map exists
        # to be cut back: whatever was preallocated must not be published)
        out.append({"lane": lane, "n": 600, "how": "streamed", "keyed": False, "chunks": 2, "declare": True,
                    "declare_wrong": MIB + 4096})
        out.append({"lane": lane, "n": 600, "how": "streamed", "keyed": True, "chunks": 1, "declare": True,
                    "declare_wrong": 2 * MIB})
        out.append({"lane": lane, "n": 900, "how": "streamed", "keyed": True, "chunks": 2, "declare": True,
                    "declare_wrong": -1, "algo": "sha512"})
        out.append({"lane": lane, "n": 300, "how": "oneshot", "keyed": True, "warm": "other"})
        out.append({"lane": lane, "n": 300, "how": "oneshot", "keyed": True, "warm": "same_address"})
        # <cache>/tmp on another file system: publication cannot be a rename (the write must
        # fail, or succeed without ever showing partial content)
        if os.path.isdir("/dev/shm") and os.stat("/dev/shm").st_dev != os.stat(WORK if os.path.isdir(WORK) else "/").st_dev:
            out.append({"lane": lane, "n": 5000, "how": "oneshot", "keyed": True, "xdev": True})
            out.append({"lane": lane, "n": 700, "how": "streamed", "keyed": False, "chunks": 2, "declare": True,
                        "xdev": True})
        for n in ([MIB + 1] if q else [MIB - 1, MIB, MIB + 1]):
            out.append({"lane": lane, "n": n, "how": "oneshot", "keyed": True})
            out.append({"lane": lane, "n": n, "how": "oneshot", "keyed": False})
    return [v for v in out if v["lane"] != "P" or v.get("declare")]


def scenario_for_write(rng, v, idx):
    prog = {"keys": {}, "blobs": {}, "steps": []}
    n = v["n"]
    d = G._mk_data(prog, rng, n)
    key = G.add_key(prog, "crash-key-%d-%s" % (idx, "é")) if v.get("keyed") else None
    st = {"op": "write", "lane": v["lane"], "data": d, "algo": v.get("algo", "sha256"), "how": v["how"]}
    if key:
        st["key"] = key
    if v["how"] == "streamed":
        c = v.get("chunks", 2)
        cuts = sorted({0, n} | {(n * i) // c for i in range(1, c)})
        st["chunks"] = [(cuts[i], cuts[i + 1]) for i in range(len(cuts) - 1)]
        if v.get("declare"):
            st["size"] = n + v.get("declare_wrong", 0)
    warm = []
    if v.get("warm") == "other":
        d2 = G._mk_data(prog, rng, 33)
        k2 = G.add_key(prog, "warm-key-%d" % idx)
        warm.append({"op": "write", "lane": "S", "key": k2, "data": d2, "algo": "sha256"})
    elif v.get("warm") == "same_address":
        k2 = G.add_key(prog, "warm-key-%d" % idx)
        warm.append({"op": "write", "lane": "S", "key": k2, "data": d, "algo": "sha256"})
    cont = [{"op": "exists", "lane": "S", "sri": [{"a": st["algo"], "d": d}]},
            {"op": "read", "lane": rng.choice(["S", "Aa", "Ta"]), "sri": [{"a": st["algo"], "d": d}]}]
    if key:
        cont += [{"op": "metadata", "lane": "S", "key": key}, {"op": "read", "lane": "Aa", "key": key}]
    cont.append({"op": "list", "lane": "S"})
    sc = {"universe": {"keys": prog["keys"], "blobs": prog["blobs"]}, "warm": warm, "procs": [st],
          "plan": {"kind": "free"}, "cont": cont, "variant": v}
    if v.get("xdev"):
        sc["xdev_tmp"] = "/dev/shm"
    return sc


def with_plan(sc, plan):
    s = dict(sc)
    s["plan"] = plan
    return s


def torn_lengths(count, every=False, rng=None, k=6):
    if count <= 0:
        return [0]
    if every or count <= 64:
        return list(range(0, count))
    pts = {0, 1, count // 2, count - 1}
    while rng is not None and len(pts) < k:
        pts.add(rng.randrange(count))
    return sorted(pts)


def crash_scenarios(sc, calls, rng, torn_areas=("tmp",), every_byte_max=64, torn_every=False):
    """every kill point of the reference run + torn lengths of its data writes"""
    out = []
    for k in range(len(calls) + 1):
        out.append(with_plan(sc, {"kind": "crash", "at": k}))
    for k, c in enumerate(calls):
        if c["name"] in ("write", "pwrite64") and c["area"] in torn_areas and c["count"] > 0:
            for n in torn_lengths(c["count"], every=(torn_every or c["count"] <= every_byte_max), rng=rng):
                out.append(with_plan(sc, {"kind": "torn", "at": k, "n": n}))
    return out


def keyed_op_scenarios(rng, tier, lanes=("S", "Aa", "Ta")):
    """C04: first write, overwrite, tombstone removal, full removal of a key with multi-byte
    UTF-8 in key and metadata, next to other keys that must keep their values"""
    out = []
    idx = 0
    for lane in lanes:
        for kind in ("first", "overwrite", "remove", "remove_fully", "first_meta", "overwrite_hash_exists",
                     "overwrite_long", "remove_long", "link_first", "link_over"):
            prog = {"keys": {}, "blobs": {}, "steps": []}
            key = G.add_key(prog, "ключ-é-☃-%d" % idx)
            other = G.add_key(prog, "other-%d" % idx)
            d_old = G._mk_data(prog, rng, 11)
            d_new = G._mk_data(prog, rng, 23)
            d_oth = G._mk_data(prog, rng, 5)
            d_next = G._mk_data(prog, rng, 8)
            warm = [{"op": "write", "lane": "S", "key": other, "data": d_oth, "algo": "sha256"}]
            if kind in ("overwrite_long", "remove_long"):
                # a key with a long history: its bucket has grown past 1 KiB / one 8 KiB read buffer
                for j in range(rng.choice([6, 40])):
                    warm.append({"op": "write", "lane": rng.choice(["S", "Aa", "Ta"]), "key": key,
                                 "data": rng.choice([d_old, d_oth]), "algo": "sha256"})
                warm.append({"op": "write", "lane": "S", "key": key, "data": d_old, "algo": "sha256"})
            if kind in ("overwrite", "remove", "remove_fully", "overwrite_hash_exists", "link_over"):
                warm.append({"op": "write", "lane": rng.choice(["S", "Aa"]), "key": key, "data": d_old, "algo": "sha256"})
            if kind.startswith("link_"):
                # the entry's content is a symlink to a file outside the cache (feature link_to)
                warm.append({"op": "env_ext", "id": "lt%d" % idx, "blob": d_new})
            if kind == "overwrite_hash_exists":
                warm.append({"op": "write", "lane": "S", "data": d_new, "algo": "sha256"})
            if kind in ("first", "overwrite", "overwrite_hash_exists", "overwrite_long"):
                st = {"op": "write", "lane": lane, "key": key, "data": d_new, "algo": "sha256", "how": "oneshot"}
            elif kind == "first_meta":
                st = {"op": "write", "lane": lane, "key": key, "data": d_new, "algo": "sha256", "how": "streamed",
                      "chunks": [(0, 10), (10, 23)], "meta": {"é": "ü☃", "n": [1, 2]}}
            elif kind in ("remove", "remove_long"):
                st = {"op": "remove", "lane": lane, "key": key}
            elif kind.startswith("link_"):
                st = {"op": "link_to", "lane": lane, "key": key, "target": "lt%d" % idx}
            else:
                st = {"op": "remove_fully", "lane": lane, "key": key}
            cont = []
            for l2 in (("S", "Aa", "Ta") if tier != "quick" else (rng.choice(["S", "As", "Ts"]), rng.choice(["Aa", "Ta"]))):
                cont += [{"op": "metadata", "lane": l2, "key": key}, {"op": "metadata", "lane": l2, "key": other},
                         {"op": "read", "lane": l2, "key": key}]
                if tier != "quick":
                    cont.append({"op": "read", "lane": l2, "key": other})
            cont += [{"op": "list", "lane": "S"},
                     {"op": "write", "lane": rng.choice(["S", "Aa", "Ta"]), "key": key, "data": d_next, "algo": "sha256"},
                     {"op": "metadata", "lane": "S", "key": key}, {"op": "read", "lane": "Aa", "key": key},
                     {"op": "remove", "lane": rng.choice(["S", "Ta"]), "key": key},
                     {"op": "metadata", "lane": "Ta", "key": key},
                     {"op": "list", "lane": "S"}]
            out.append({"universe": {"keys": prog["keys"], "blobs": prog["blobs"]}, "warm": warm, "procs": [st],
                        "plan": {"kind": "free"}, "cont": cont, "variant": {"kind": kind, "lane": lane}})
            idx += 1
    return out


# ---------------------------------------------------------------------------------------
# fault injection (C13)
# ---------------------------------------------------------------------------------------
from .fs import EIO, ENOSPC, EACCES, EMFILE


def errnos_for(call):
    n = call["name"]
    if n in ("openat", "open", "openat2", "creat"):
        return [EIO, EACCES, EMFILE] + ([ENOSPC] if call["mut"] else [])
    if n in ("mkdir", "mkdirat"):
        return [EIO, ENOSPC, EACCES]
    if n in ("write", "pwrite64", "writev"):
        return [EIO, ENOSPC]
    if n in ("read", "pread64", "readv", "getdents64"):
        return [EIO]
    if n in ("rename", "renameat", "renameat2", "link", "linkat"):
        return [EIO, EACCES, ENOSPC, 18]          # 18 = EXDEV
    if n in ("symlink", "symlinkat"):
        return [EIO, EACCES, ENOSPC]
    if n in ("unlink", "unlinkat", "rmdir"):
        return [EIO, EACCES]
    if n in ("fallocate", "ftruncate"):
        return [ENOSPC, EIO]
    if n in ("stat", "lstat", "newfstatat", "statx", "access", "faccessat", "faccessat2", "readlink", "readlinkat"):
        return [EIO, EACCES]
    if n in ("copy_file_range", "sendfile"):
        return [EIO, ENOSPC]
    if n == "mmap":
        return [12]                               # ENOMEM: a file mapping is refused (vm.max_map_count)
    return []


def fault_op_scenarios(rng, tier, lanes=("S", "Aa", "Ta"), kinds=None):
    """one scenario per (operation, lane): warm state + the operation as the traced process +
    a continuation that repeats the same call without fault and looks at the other entries"""
    out = []
    idx = 0
    for lane in lanes:
        for kind in ("write", "write_hash", "write_streamed_mmap", "write_over", "read", "read_hash", "metadata",
                     "copy", "copy_hash", "hard_link", "remove", "remove_hash", "list"):
            if kinds is not None and kind not in kinds:
                continue
            prog = {"keys": {}, "blobs": {}, "steps": []}
            key = G.add_key(prog, "fault-key-%d" % idx)
            other = G.add_key(prog, "other-%d" % idx)
            d_old = G._mk_data(prog, rng, 19)
            d_new = G._mk_data(prog, rng, 700)
            d_oth = G._mk_data(prog, rng, 5)
            warm = [{"op": "write", "lane": "S", "key": other, "data": d_oth, "algo": "sha256"}]
            sri_old = [{"a": "sha256", "d": d_old}]
            need_old = kind in ("write_over", "read", "read_hash", "metadata", "copy", "copy_hash", "hard_link",
                                "remove", "remove_hash", "list")
            if need_old:
                warm.append({"op": "write", "lane": "S", "key": key, "data": d_old, "algo": "sha256"})
            x = "dest%d" % idx
            if kind in ("write", "write_over"):
                st = {"op": "write", "lane": lane, "key": key, "data": d_new, "algo": "sha256", "how": "oneshot"}
            elif kind == "write_hash":
                st = {"op": "write", "lane": lane, "data": d_new, "algo": "sha256", "how": "oneshot"}
            elif kind == "write_streamed_mmap":
                st = {"op": "write", "lane": lane, "key": key, "data": d_new, "algo": "sha256", "how": "streamed",
                      "chunks": [(0, 300), (300, 700)], "size": 700}
            elif kind == "read":
                st = {"op": "read", "lane": lane, "key": key}
            elif kind == "read_hash":
                st = {"op": "read", "lane": lane, "sri": sri_old}
            elif kind == "metadata":
                st = {"op": "metadata", "lane": lane, "key": key}
            elif kind == "copy":
                st = {"op": "extract", "lane": lane, "kind": "copy", "checked": True, "key": key, "to": x}
            elif kind == "copy_hash":
                st = {"op": "extract", "lane": lane, "kind": "copy", "checked": True, "sri": sri_old, "to": x}
            elif kind == "hard_link":
                st = {"op": "extract", "lane": lane, "kind": "hard_link", "checked": True, "key": key, "to": x}
            elif kind == "remove":
                st = {"op": "remove", "lane": lane, "key": key}
            elif kind == "remove_hash":
                st = {"op": "remove_hash", "lane": lane, "sri": sri_old}
            else:
                st = {"op": "list", "lane": lane}
            # once the fault is gone the same call succeeds
            retry = {k: v for k, v in st.items() if k not in ("how", "chunks", "size")}
            if kind == "write_streamed_mmap":
                retry = {"op": "write", "lane": lane, "key": key, "data": d_new, "algo": "sha256"}
            if st["op"] == "extract":
                retry["to"] = x + "r"
            cont = [retry,
                    {"op": "metadata", "lane": "S", "key": other}, {"op": "read", "lane": "Aa", "key": other},
                    {"op": "metadata", "lane": "S", "key": key}, {"op": "list", "lane": "S"}]
            out.append({"universe": {"keys": prog["keys"], "blobs": prog["blobs"]}, "warm": warm, "procs": [st],
                        "plan": {"kind": "free"}, "cont": cont, "variant": {"kind": kind, "lane": lane},
                        "resolvable": kind != "remove_hash"})
            idx += 1
            if kind in ("write", "write_hash") and os.path.isdir("/dev/shm") \
                    and os.stat("/dev/shm").st_dev != os.stat("/").st_dev:
                # the same write on a cache whose tmp/ is on another file system (publication cannot
                # be a rename): with or without further faults it must fail cleanly or succeed truthfully
                sc2 = dict(out[-1])
                sc2["xdev_tmp"] = "/dev/shm"
                sc2["cont"] = cont[1:]          # (a retry fails the same way on this layout)
                sc2["variant"] = {"kind": kind + "_xdev", "lane": lane}
                out.append(sc2)
    return out


def fault_scenarios(sc, calls, rng, pairs=False):
    out = []
    for k, c in enumerate(calls):
        for e in errnos_for(c):
            out.append(with_plan(sc, {"kind": "fault", "at": k, "errno": e}))
        if c["name"] in ("write", "pwrite64") and c["count"] > 1:
            out.append(with_plan(sc, {"kind": "short", "at": k, "n": max(1, c["count"] // 2), "then": ENOSPC}))
            out.append(with_plan(sc, {"kind": "short", "at": k, "n": 1, "then": EIO}))
    if pairs:
        for k, c in enumerate(calls):
            es = errnos_for(c)
            if not es:
                continue
            for j in range(0, min(6, len(calls) - k)):
                out.append(with_plan(sc, {"kind": "fault", "at": k, "errno": rng.choice(es),
                                          "second": {"after": j, "errno": rng.choice([EIO, EACCES, ENOSPC])}}))
    return out


# ---------------------------------------------------------------------------------------
# concurrency (C07): schedules and the serialisability oracle
# ---------------------------------------------------------------------------------------

def history_of(events):
    """one concurrent run -> {init, ops:[{op,res}], final} for SerialAPI.tla"""
    init = next(e["snap"] for e in events if e["ev"] == "begin")
    final = next(e["snap"] for e in reversed(events) if e["ev"] == "end")
    ops = {}
    for e in events:
        if e["ev"] == "spawn":
            ops[e["p"]] = {"op": dict(e["op"]), "res": None}
        elif e["ev"] == "result":
            ops[e["p"]]["res"] = e["res"]
    # clock values: read off the records the run appended (in append order per bucket)
    def lines(snap, k):
        for b in snap["buckets"]:
            if b["key"] == k:
                return b["lines"]
        return []
    used = set()
    for p in sorted(ops):
        o = ops[p]["op"]
        if o["op"] in ("write", "remove", "index_insert", "link_to") and "key" in o:
            k = o["key"]
            new = lines(final, k)[len(lines(init, k)):]
            tm = "0"
            for idx, ln in enumerate(new):
                if ln["t"] != "rec" or (k, idx) in used:
                    continue
                r = ln["r"]
                want_tomb = o["op"] == "remove"
                if (r["sri"] == []) != want_tomb:
                    continue
                if o["op"] == "write" and r["sri"] != [{"a": o["algo"], "d": o["data"]}]:
                    continue
                if o["op"] == "write" and r.get("meta", "null") != o.get("meta", "null"):
                    continue            # (another writer's record of the same key and data)
                used.add((k, idx))
                tm = r["time"]
                break
            o["now"] = tm
            o["now_ok"] = True
    return {"ev": "hist", "init": init, "ops": [ops[p] for p in sorted(ops)], "final": final}


def validate_serial(hists, lens, base, workdir, reflink=False):
    path = base + ".serial.ndjson"
    with open(path, "w") as f:
        f.write(json.dumps({"ev": "init", "lens": lens, "reflink": bool(reflink)}) + "\n")
        for h in hists:
            f.write(json.dumps(h) + "\n")
    res = run_tlc("SerialAPI", "SerialAPI.cfg", workdir, env={"TRACE": path}, workers=1, timeout=1800, deque=False)
    out = res["out"]
    info = {"states": res["distinct"], "transitions": res["generated"], "trace": path}
    if '"ACCEPTED"' in out and "Error:" not in out:
        info["accepted"] = True
        return info, []
    m = re.search(r'"REJECTED", (\d+)', out)
    if not m:
        raise ToolError("TLC failed on serial trace %s:\n%s" % (path, out[-2500:]))
    # report every history that cannot be explained: drop the rejected one and go on
    bad = []
    rest = list(hists)
    offset = 0
    line = int(m.group(1))
    guard = 0
    while True:
        idx = line - 2
        bad.append(offset + idx)
        rest = rest[idx + 1:]
        offset += idx + 1
        guard += 1
        if not rest or guard > 30:
            break
        with open(path + ".rest", "w") as f:
            f.write(json.dumps({"ev": "init", "lens": lens, "reflink": bool(reflink)}) + "\n")
            for h in rest:
                f.write(json.dumps(h) + "\n")
        r2 = run_tlc("SerialAPI", "SerialAPI.cfg", workdir, env={"TRACE": path + ".rest"}, workers=1, timeout=1800)
        m = re.search(r'"REJECTED", (\d+)', r2["out"])
        if not m:
            break
        line = int(m.group(1))
    info["accepted"] = False
    return info, bad


def conc_ops(rng, tier):
    """operation instances for concurrent runs over two keys and two data values"""
    prog = {"keys": {}, "blobs": {}, "steps": []}
    k1 = G.add_key(prog, "conc-k1-%d" % rng.randrange(10 ** 6))
    k2 = G.add_key(prog, "conc-k2-%d" % rng.randrange(10 ** 6))
    d1 = G._mk_data(prog, rng, 13)
    d2 = G._mk_data(prog, rng, 900)
    s1 = [{"a": "sha256", "d": d1}]
    s2 = [{"a": "sha256", "d": d2}]
    # index records longer than any buffer a writer might put in front of the bucket file (8 KiB,
    # 64 KiB): a record is ONE append whatever its length
    k3 = G.add_key(prog, "conc-long-key-%d-" % rng.randrange(10 ** 6) + "L" * 8300)
    bigmeta = {"big": "M" * 9000, "n": 1}
    hugemeta = {"big": "M" * 70000, "n": 2}
    ops = {
        "w11m": {"op": "write", "key": k1, "data": d1, "algo": "sha256", "how": "streamed", "meta": bigmeta},
        "w11M": {"op": "write", "key": k1, "data": d1, "algo": "sha256", "how": "streamed", "meta": hugemeta},
        # (above the 2 MiB per-operation ceiling of tokio's File)
        "w11H": {"op": "write", "key": k1, "data": d1, "algo": "sha256", "how": "streamed",
                 "meta": {"big": "M" * (2 * 1024 * 1024 + 5000)}},
        "w3L": {"op": "write", "key": k3, "data": d1, "algo": "sha256", "how": "oneshot"},
        "x3L": {"op": "remove", "key": k3},
        "w11": {"op": "write", "key": k1, "data": d1, "algo": "sha256", "how": "oneshot"},
        "w12": {"op": "write", "key": k1, "data": d2, "algo": "sha256", "how": "oneshot"},
        "w21": {"op": "write", "key": k2, "data": d1, "algo": "sha256", "how": "oneshot"},
        "w12s": {"op": "write", "key": k1, "data": d2, "algo": "sha256", "how": "streamed",
                 "chunks": [(0, 400), (400, 900)]},
        "wh1": {"op": "write", "data": d1, "algo": "sha256", "how": "oneshot"},
        "r1": {"op": "read", "key": k1}, "r2": {"op": "read", "key": k2},
        "rh1": {"op": "read", "sri": s1}, "rh2": {"op": "read", "sri": s2},
        "m1": {"op": "metadata", "key": k1},
        "x1": {"op": "remove", "key": k1}, "x2": {"op": "remove", "key": k2},
        "xh1": {"op": "remove_hash", "sri": s1},
        "e1": {"op": "exists", "sri": s1},
        "ls": {"op": "list"},
    }
    long_hist = [{"op": "write", "lane": rng.choice(["S", "Aa"]), "key": k1, "data": rng.choice([d1, d2]), "algo": "sha256"}
                 for _ in range(30)]
    warm_states = {
        "long": long_hist + [{"op": "write", "lane": "S", "key": k1, "data": d1, "algo": "sha256"},
                             {"op": "write", "lane": "S", "key": k2, "data": d2, "algo": "sha256"}],
        "cold": [],
        "warm": [{"op": "write", "lane": "S", "key": k1, "data": d1, "algo": "sha256"},
                 {"op": "write", "lane": "S", "key": k2, "data": d2, "algo": "sha256"}],
    }
    return prog, ops, warm_states


def conc_scenarios(rng, tier, lanes=("S", "Aa", "Ta")):
    q = tier == "quick"
    prog, ops, warm = conc_ops(rng, tier)
    names = sorted(ops)
    pairs = [(a, b) for a in names for b in names if a <= b]
    if q:
        must = [("w11", "w12"), ("w12", "w12s"), ("w11", "w21"), ("w11", "wh1"), ("w12", "x1"), ("w12", "r1"),
                ("w12", "m1"), ("w12", "ls"), ("x1", "r1"), ("xh1", "r1"), ("xh1", "w11"), ("w11", "w11"),
                ("x1", "x1"), ("x1", "ls"), ("rh1", "xh1"), ("e1", "w11"), ("w12s", "ls"), ("w12s", "r1"),
                ("w11m", "w12"), ("w11M", "x1"), ("w11M", "w12"), ("w3L", "w3L"), ("w3L", "x3L"), ("w11H", "x1")]
        extra = rng.sample([p for p in pairs if p not in must and "w11H" not in p], 8)
        pairs = must + extra
    else:
        pairs = [p for p in pairs if "w11H" not in p or p in (("w11H", "x1"), ("w11H", "w12"), ("w11H", "w11H"))]
    out = []
    for (a, b) in pairs:
        wnames = ["cold", "warm", "long"] if not q else [rng.choice(["cold", "warm"]), rng.choice(["warm", "long"])]
        if "w11H" in (a, b):
            # one run per lane of the long writer (each runtime has its own per-operation ceiling)
            wnames = ["warm"] * len(lanes)
        for wi, wname in enumerate(wnames):
            lane_a, lane_b = rng.choice(lanes), rng.choice(lanes)
            if a == "w11H":
                lane_a = lanes[wi % len(lanes)]
            sa = dict(ops[a], lane=lane_a)
            sb = dict(ops[b], lane=lane_b)
            out.append({"universe": {"keys": prog["keys"], "blobs": prog["blobs"]}, "warm": warm[wname],
                        "procs": [sa, sb], "plan": {"kind": "free"}, "cont": [],
                        "variant": {"pair": [a, b], "warm": wname, "lanes": [lane_a, lane_b]}})
    return out, (prog, ops, warm)


def sched_class(e):
    """class of a visible call in the vocabulary of CacacheFS.tla's actions, readers included"""
    from . import l2 as L2
    # (a call that fails on its own - unlink of a missing file, open of a missing bucket - still
    # is the step the action stands for: the specification's action has the error outcome too)
    c = L2.event_class(dict(e, ret=max(0, e["ret"]), count=max(0, e["ret"])))
    if c != "noise":
        return c
    name, area = e["name"], e["area"]
    opens = ("openat", "open", "openat2")
    reads = ("read", "pread64", "readv", "mmap")
    if area == "index" and e["file"] and name in opens and not e["mut"]:
        return "open_bucket_r"
    if area == "index" and e["file"] and name in reads:
        return "read_bucket"
    if area == "content" and e["file"] and name in opens and not e["mut"]:
        return "open_content"
    if area == "content" and e["file"] and name in reads:
        return "read_content"
    if area == "content" and name in ("statx", "newfstatat", "stat", "lstat", "access", "faccessat", "faccessat2"):
        return "stat_content"
    return "noise"


def model_schedules(rng, tier, want, lanes=("S", "Aa", "Ta"), nsim=None):
    """TLC simulates CacacheFS.tla (three processes, one operation each, every interleaving of
    their actions possible) and prints each behaviour's (process, action) sequence; every
    distinct sequence in which at least two operations overlap becomes a scenario"""
    from . import mc as M
    from .common import WORK, run_tlc
    wd = os.path.join(WORK, "model_sched")
    os.makedirs(wd, exist_ok=True)
    cfg = os.path.join(wd, "sched.cfg")
    with open(cfg, "w") as f:
        f.write('CONSTANTS\n  Procs = {p1, p2, p3}\n  Keys = {"k1", "k2"}\n  Datas = {"d1", "d2"}\n'
                '  OpSet <- MCOpsAll\n  IsEmptyData <- MCIsEmpty\n  MaxStarts = 3\n  AllowCrash = FALSE\n'
                '  MaxFaults = 0\n  NoFile = NoFile\nSPECIFICATION SSpec\nINVARIANT ExportSched\nCHECK_DEADLOCK FALSE\n')
    nsim = nsim or max(400, want * 12)
    res = run_tlc("MC_FSSched", cfg, wd, workers=1, timeout=900,
                  extra=["-simulate", "num=%d" % nsim, "-depth", "90", "-seed", str(rng.randrange(1 << 30))])
    behs, seen = [], set()
    for m in re.finditer(r'<<"SCHED", "((?:[^"\\]|\\.)*)">>', res["out"]):
        txt = m.group(1).encode().decode("unicode_escape")
        if txt in seen:
            continue
        seen.add(txt)
        behs.append(json.loads(txt))
    if not behs:
        raise ToolError("no schedules exported:\n" + res["out"][-2000:])

    def overlaps(b):
        # some process acts between another one's start and its last action, and something is written
        last = {}
        for i, st in enumerate(b["steps"]):
            last[st["p"]] = i
        first = {}
        for i, st in enumerate(b["steps"]):
            first.setdefault(st["p"], i)
        ps = list(first)
        inter = any(first[x] < first[y] < last[x] or first[y] < first[x] < last[y]
                    for x in ps for y in ps if x < y)
        mut = sum(1 for st in b["steps"] if st["a"] == "start" and st["o"]["op"] in ("write", "write_hash", "remove", "remove_hash"))
        return inter and mut >= 1
    good = [b for b in behs if overlaps(b)]
    rng.shuffle(good)
    good.sort(key=lambda b: -sum(1 for st in b["steps"] if st["a"] == "start"
                                 and st["o"]["op"] in ("write", "remove", "remove_hash")))
    out = []
    pidx = {"p1": 0, "p2": 1, "p3": 2}
    for b in good[:want]:
        prog = {"keys": {}, "blobs": {}, "steps": []}
        keys = {"k1": G.add_key(prog, "model-k1-%d" % rng.randrange(10 ** 6)), "k2": G.add_key(prog, "model-k2-%d" % rng.randrange(10 ** 6))}
        datas = {"d1": G._mk_data(prog, rng, 13), "d2": G._mk_data(prog, rng, 900)}
        procs = [None, None, None]
        for st in b["steps"]:
            if st["a"] != "start":
                continue
            o = st["o"]
            lane = rng.choice(lanes)
            name = o["op"]
            if name == "write":
                c = {"op": "write", "key": keys[o["k"]], "data": datas[o["d"]], "algo": "sha256", "how": "oneshot"}
            elif name == "write_hash":
                c = {"op": "write", "data": datas[o["d"]], "algo": "sha256", "how": "oneshot"}
            elif name in ("read", "metadata", "remove"):
                c = {"op": name, "key": keys[o["k"]]}
            elif name == "read_hash":
                c = {"op": "read", "sri": [{"a": "sha256", "d": datas[o["d"]]}]}
            elif name in ("remove_hash", "exists"):
                c = {"op": name, "sri": [{"a": "sha256", "d": datas[o["d"]]}]}
            else:
                c = {"op": "list"}
            procs[pidx[st["p"]]] = dict(c, lane=lane)
        if any(x is None for x in procs):
            continue
        out.append({"universe": {"keys": prog["keys"], "blobs": prog["blobs"]}, "warm": [],
                    "procs": procs, "cont": [],
                    "plan": {"kind": "model", "steps": [(pidx[st["p"]], st["a"]) for st in b["steps"]],
                             "expect": {str(pidx[r["p"]]): r["ok"] for r in b["results"]}},
                    "variant": {"model": [st["o"]["op"] for st in b["steps"] if st["a"] == "start"]}})
    return out, {"behaviours_exported": len(behs), "overlapping": len(good)}


def schedules_for(sc, na, nb, rng, per_i=4, max_i=None):
    """schedules with few pre-emptions: A runs i calls, B runs j calls, then both alternate"""
    out = []
    iset = list(range(0, na + 1))
    # one side has only a few visible calls (remove_hash, exists, a read by address ...): EVERY
    # placement of those calls between the other side's calls is run, not a sample - a window of
    # one call (between a failed no-replace rename and the stat that follows it, say) is hit for sure
    every = min(na, nb) <= 3 and (na + 1) * (nb + 1) <= 120
    if max_i is not None and len(iset) > max_i and not every:
        iset = sorted(set(rng.sample(iset, max_i)) | {0, na})
    for i in iset:
        js = {0, nb} | {rng.randrange(0, nb + 1) for _ in range(per_i)}
        if every:
            js = set(range(0, nb + 1))
        for j in sorted(js):
            out.append(with_plan(sc, {"kind": "schedule", "order": [0] * i + [1] * j}))
            if rng.random() < 0.3:
                k = rng.randrange(0, max(1, na - i) + 1)
                out.append(with_plan(sc, {"kind": "schedule", "order": [0] * i + [1] * j + [0] * k + [1] * nb}))
    return out


# ---------------------------------------------------------------------------------------
# confinement (C15)
# ---------------------------------------------------------------------------------------

def confinement_scenarios(rng, tier, lanes=("S", "Aa", "Ta")):
    q = tier == "quick"
    keys = list(G.HOSTILE_KEYS)
    rng.shuffle(keys)
    keys = keys[:10 if q else len(keys)] + ["".join(chr(rng.randrange(0x20, 0x3000)) for _ in range(8))
                                            for _ in range(2 if q else 20)]
    out = []
    for lane in lanes:
        prog = {"keys": {}, "blobs": {}, "steps": []}
        key = G.add_key(prog, "clear-me-%s" % lane)
        d = G._mk_data(prog, rng, 9)
        out.append({"universe": {"keys": prog["keys"], "blobs": prog["blobs"]},
                    "warm": [{"op": "write", "lane": "S", "key": key, "data": d, "algo": "sha256"}],
                    "procs": [{"op": "clear", "lane": lane}], "plan": {"kind": "free"}, "cont": [],
                    "variant": {"key": "clear with a symlink out of the cache", "op": "clear", "lane": lane},
                    "symlink_out": True})
    for ki, ks in enumerate(keys):
        prog = {"keys": {}, "blobs": {}, "steps": []}
        key = G.add_key(prog, ks)
        d = G._mk_data(prog, rng, 21)
        sri = [{"a": "sha256", "d": d}]
        ops = [("write", {"op": "write", "key": key, "data": d, "algo": "sha256", "how": "oneshot"}, False),
               ("read", {"op": "read", "key": key}, True),
               ("metadata", {"op": "metadata", "key": key}, True),
               ("exists", {"op": "exists", "sri": sri}, True),
               ("list", {"op": "list"}, True),
               ("copy", {"op": "extract", "kind": "copy", "checked": True, "key": key, "to": "out%d" % ki}, True),
               ("hard_link", {"op": "extract", "kind": "hard_link", "checked": True, "key": key, "to": "hl%d" % ki}, True),
               ("remove", {"op": "remove", "key": key}, True),
               ("remove_hash", {"op": "remove_hash", "sri": sri}, True),
               ("remove_fully", {"op": "remove_fully", "key": key}, True),
               ("read_missing", {"op": "read", "key": key}, False),
               ("metadata_missing", {"op": "metadata", "key": key}, False),
               ("list_missing", {"op": "list"}, False)]
        # a cache that holds nothing but this key's bucket (a removal of a key never written):
        # the removals must not touch anything above the bucket file, let alone the cache root
        ops += [("remove_fully_bare", {"op": "remove_fully", "key": key}, "bare"),
                ("remove_bare", {"op": "remove", "key": key}, "bare"),
                ("clear_bare", {"op": "clear"}, "bare")]
        # read-only calls that meet DAMAGED or missing content report it and change nothing (no
        # "self-healing" deletion, no quarantine file)
        dops = [("read_damaged", {"op": "read", "key": key}, "damaged"),
                ("read_hash_damaged", {"op": "read", "sri": sri}, "damaged"),
                ("copy_damaged", {"op": "extract", "kind": "copy", "checked": True, "key": key, "to": "outd%d" % ki}, "damaged"),
                ("hard_link_damaged", {"op": "extract", "kind": "hard_link", "checked": True, "sri": sri, "to": "hld%d" % ki}, "damaged"),
                ("exists_damaged", {"op": "exists", "sri": sri}, "damaged"),
                ("read_content_gone", {"op": "read", "key": key}, "gone")]
        # writes into a cache whose temp area (or content area) cannot be used: the call fails, or
        # succeeds, INSIDE the cache - no fallback to the system's temp directory
        hops = [("write_" + h, {"op": "write", "key": key, "data": d, "algo": "sha256", "how": how}, h)
                for h in ("tmp_file", "tmp_dangling", "content_file") for how in ("oneshot", "streamed")]
        hops += [("write_hash_" + h, {"op": "write", "data": d, "algo": "sha256", "how": "oneshot"}, h)
                 for h in ("tmp_file", "tmp_dangling")]
        if q:
            ops = [ops[0]] + rng.sample(ops[1:-3], 4) + rng.sample(ops[-3:], 2) + rng.sample(dops, 3) + rng.sample(hops, 2)
        else:
            ops += dops + hops
        for name, st, needs in ops:
            lane = rng.choice(lanes)
            warm = [{"op": "write", "lane": "S", "key": key, "data": d, "algo": "sha256"}] if needs is True else \
                   ([{"op": "remove", "lane": "S", "key": key}] if needs == "bare" else [])
            if needs in ("damaged", "gone"):
                dm = {"flip": {"mode": "flip", "bit": rng.randrange(21 * 8)}, "cut": {"mode": "cut", "len": rng.randrange(21)},
                      "extend": {"mode": "extend", "extra": "00ff"}}[rng.choice(["flip", "cut", "extend"])]
                if needs == "gone":
                    dm = {"mode": "remove"}
                warm = [{"op": "write", "lane": "S", "key": key, "data": d, "algo": "sha256"},
                        dict({"op": "env_content", "algo": "sha256", "blob": d}, **dm)]
            sc_ = {"universe": {"keys": prog["keys"], "blobs": prog["blobs"]}, "warm": warm,
                   "procs": [dict(st, lane=lane)], "plan": {"kind": "free"}, "cont": [],
                   "variant": {"key": ks[:40], "op": name, "lane": lane},
                   "allowed": {"key": ks, "data_hex": d}}
            if needs in ("tmp_file", "tmp_dangling", "content_file"):
                sc_["hostile"] = needs
                sc_["warm"] = []
                sc_["resolvable"] = False
                if st.get("how") == "streamed":
                    sc_["procs"][0]["chunks"] = [(0, 10), (10, 21)]
            out.append(sc_)
    return out


def touch_events(sess, sc, events):
    """for every visible call in the index / content area: the path it touched and the paths the
    operation may touch, computed by the reference from hashlib digests of key and data"""
    import hashlib
    from . import refimpl as R
    b = lambda x: list(x.encode())
    allowed = []
    ks = sc["allowed"]["key"]
    allowed.append([b(x) for x in R.bucket_relpath(ks).split(os.sep)])
    blob = sess.u.blobs[sc["allowed"]["data_hex"]]
    for a in ("sha256",):
        allowed.append([b(x) for x in R.content_relpath(a, R.digest_hex(a, blob.bytes())).split(os.sep)])
    out = []
    for e in events:
        if e["ev"] != "sys":
            continue
        for rel, area in ((e.get("rel"), e.get("area")), (e.get("rel1"), e.get("area1"))):
            if rel and area in ("index", "content"):
                walk = e["name"] == "getdents64" or (sc["procs"][0]["op"] in ("list", "clear"))
                if walk:
                    continue        # a listing walks the whole index by design
                out.append({"ev": "touch", "path": [b(x) for x in rel.split(os.sep)], "allowed": allowed,
                            "rel": rel, "name": e["name"]})
    return out


# ---------------------------------------------------------------------------------------
# reflink success paths (C18 / C01): FICLONE emulated by the tracer
# ---------------------------------------------------------------------------------------

def reflink_scenarios(rng, tier, lanes=("S", "Aa", "Ta")):
    out = []
    idx = 0
    for lane in lanes:
        for checked in (True, False):
            for keyed in (True, False):
                for state in ("pristine", "flipped", "dest_exists", "missing"):
                    if not checked and not keyed and lane != "S":
                        continue          # reflink_hash_unchecked exists in the sync API only
                    prog = {"keys": {}, "blobs": {}, "steps": []}
                    key = G.add_key(prog, "reflink-%d" % idx)
                    n = rng.choice([0, 9, 5000, 70000])
                    d = G._mk_data(prog, rng, n)
                    pre = G.add_blob(prog, b"already there")
                    warm = [{"op": "write", "lane": "S", "key": key, "data": d, "algo": "sha256"}]
                    x = "rl%d" % idx
                    if state == "flipped" and n > 0:
                        warm.append({"op": "env_content", "algo": "sha256", "blob": d, "mode": "flip", "bit": rng.randrange(n * 8)})
                    elif state == "dest_exists":
                        warm.append({"op": "env_ext", "id": x, "blob": pre})
                    elif state == "missing":
                        warm.append({"op": "env_content", "algo": "sha256", "blob": d, "mode": "remove"})
                    st = {"op": "extract", "lane": lane, "kind": "reflink", "checked": checked, "to": x}
                    if keyed:
                        st["key"] = key
                    else:
                        st["sri"] = [{"a": "sha256", "d": d}]
                    out.append({"universe": {"keys": prog["keys"], "blobs": prog["blobs"]}, "warm": warm,
                                "procs": [st], "plan": {"kind": "free"}, "cont": [], "serial": True,
                                "emulate_clone": True, "resolvable": False,
                                "variant": {"lane": lane, "checked": checked, "keyed": keyed, "state": state, "n": n}})
                    idx += 1
    return out
