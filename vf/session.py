"""Driver co-processes, the universe of abstract identifiers, and the recording session.

A Session owns one cache directory, dispatches abstract steps to the flavour co-processes,
abstracts what they return (concrete bytes / digests / JSON -> identifiers), projects the
directory with the independent reader after every step, and records the NDJSON trace that
TLC validates against spec/TraceAPI.tla.  No verdict is computed here.
"""
import hashlib
import json
import os
import select
import shutil
import subprocess
import time

from . import refimpl as R
from .common import ToolError, driver_path

LANES = {"S": ("sync", True), "As": ("asyncstd", True), "Aa": ("asyncstd", False),
         "Ts": ("tokio", True), "Ta": ("tokio", False),
         # the blocking API of a build WITHOUT the mmap feature (not in ALL_LANES: used where the
         # memory map matters - declared sizes)
         "P": ("plain", True)}
ALL_LANES = ["S", "As", "Aa", "Ts", "Ta"]
WATCHDOG_S = 30.0


class Hang(Exception):
    pass


class Driver:
    def __init__(self, flavour, cwd=None, tmpfs=None):
        self.flavour = flavour
        cmd = [driver_path(flavour)]
        if tmpfs:
            # the co-process gets a mount namespace of its own in which `dir` is a tmpfs of
            # `kib` KiB: a file system that can be filled FOR REAL (ENOSPC from the kernel, SIGBUS
            # on a page of a sparse mapping), not only by failing single system calls
            d_, kib = tmpfs
            cmd = ["unshare", "-Urm", "sh", "-c",
                   "mount -t tmpfs -o size=%dk tmpfs '%s' && exec '%s'" % (kib, d_, driver_path(flavour))]
        self.p = subprocess.Popen(cmd, stdin=subprocess.PIPE,
                                  stdout=subprocess.PIPE, cwd=cwd, bufsize=0)
        self.buf = b""

    def call(self, req, timeout=WATCHDOG_S):
        line = (json.dumps(req) + "\n").encode()
        try:
            self.p.stdin.write(line)
            self.p.stdin.flush()
        except BrokenPipeError:
            return {"ok": False, "died": self.p.wait()}
        deadline = time.time() + timeout
        while b"\n" not in self.buf:
            left = deadline - time.time()
            if left <= 0:
                self.kill()
                raise Hang()
            r, _, _ = select.select([self.p.stdout], [], [], left)
            if not r:
                self.kill()
                raise Hang()
            chunk = os.read(self.p.stdout.fileno(), 1 << 20)
            if not chunk:
                rc = self.p.wait()
                return {"ok": False, "died": rc}
            self.buf += chunk
        out, _, self.buf = self.buf.partition(b"\n")
        return json.loads(out)

    def kill(self):
        try:
            self.p.kill()
            self.p.wait()
        except Exception:
            pass

    def close(self):
        try:
            self.p.stdin.close()
            self.p.wait(timeout=5)
        except Exception:
            self.kill()


class Blob:
    __slots__ = ("id", "spec", "len", "sha256", "_bytes")

    def __init__(self, bid, data=None, gen=None):
        self.id = bid
        if gen is not None:
            self.spec = {"gen": list(gen)}
            data = R.gen_bytes(gen[0], gen[1])
            self._bytes = data if len(data) <= (1 << 16) else None
        else:
            self.spec = {"hex": data.hex()}
            self._bytes = data
        self.len = len(data)
        self.sha256 = hashlib.sha256(data).hexdigest()

    def bytes(self):
        if self._bytes is not None:
            return self._bytes
        g = self.spec["gen"]
        return R.gen_bytes(g[0], g[1])


class Universe:
    """Concrete <-> abstract identifiers.  Identifiers are assigned by VALUE, so equality of
    identifiers is equality of the concrete things they stand for."""

    def __init__(self):
        self.keys = {}          # id -> str
        self.key_ids = {}       # str -> id
        self.blobs = {}         # id -> Blob
        self.by_sha = {}        # sha256 hex -> id
        self.by_digest = {}     # (algo, hex) -> id
        self.metas = {"null": None}
        self.meta_ids = {self._canon(None): "null"}
        self.raws = {}
        self.exts = {}          # id -> path
        self.ext_ids = {}
        self.bucket_owner = {}  # relpath -> key id
        self.add_blob(data=b"")

    # keys
    def add_key(self, kid, s):
        self.keys[kid] = s
        self.key_ids[s] = kid
        self.bucket_owner[R.bucket_relpath(s)] = kid

    def key_id(self, s):
        return self.key_ids.get(s, "?" + s)

    # blobs
    def add_blob(self, bid=None, data=None, gen=None):
        """register bytes; the identifier is derived from the value (bid is ignored)"""
        b = Blob(None, data, gen)
        if b.sha256 in self.by_sha:
            return self.blobs[self.by_sha[b.sha256]]
        raw = b.bytes()
        b.id = R.blob_id(raw)
        self.blobs[b.id] = b
        self.by_sha[b.sha256] = b.id
        for a in ("sha1", "sha256", "sha384", "sha512"):
            self.by_digest[(a, R.digest_hex(a, raw))] = b.id
        return b

    def blob_id_of_bytes(self, data):
        return self.add_blob(data=data).id

    def blob_id_of_summary(self, v):
        """driver's bytes summary {len, sha256, hex?} -> id (registering unknown bytes)."""
        sha = v["sha256"]
        if sha in self.by_sha:
            return self.by_sha[sha]
        if "hex" in v:
            return self.blob_id_of_bytes(bytes.fromhex(v["hex"]))
        bid = "b" + sha[:10]
        b = Blob.__new__(Blob)
        b.id, b.spec, b.len, b.sha256, b._bytes = bid, None, v["len"], sha, None
        self.blobs[bid] = b
        self.by_sha[sha] = bid
        return bid

    _xxh3_helper = None

    def xxh3_hex(self, bid):
        """XXH3-128 through the xxhash crate (helper co-process); consistency only, see DESIGN 8"""
        for (a, hx), b in self.by_digest.items():
            if a == "xxh3" and b == bid:
                return hx
        if Universe._xxh3_helper is None or Universe._xxh3_helper.p.poll() is not None:
            Universe._xxh3_helper = Driver("sync")
        r = Universe._xxh3_helper.call({"op": "xxh3", "data": self.blobs[bid].spec})
        hx = r["val"]
        self.by_digest[("xxh3", hx)] = bid
        return hx

    def learn_xxh3(self, bid, sri_string):
        for a, hx in R.parse_sri(sri_string):
            if a == "xxh3" and ("xxh3", hx) not in self.by_digest:
                self.by_digest[("xxh3", hx)] = bid

    def sri_abs(self, s):
        out = []
        for a, hx in R.parse_sri(s):
            d = self.by_digest.get((a, hx))
            out.append({"a": a, "d": d if d is not None else "?" + hx[:16]})
        return out

    def sri_conc(self, hashes):
        """abstract [(algo, blob id)] -> integrity string (sha* only, or learned xxh3)."""
        parts = []
        for h in hashes:
            a, d = h["a"], h["d"]
            if a == "xxh3":
                hx = self.xxh3_hex(d)
            else:
                hx = R.digest_hex(a, self.blobs[d].bytes())
            parts.append(R.sri_string(a, hx))
        return " ".join(parts)

    def sri_sorted(self, hashes):
        """order abstract hashes the way ssri sorts the concrete value"""
        s = self.sri_conc(hashes)
        return self.sri_abs(s)

    # metadata values
    @staticmethod
    def _canon(v):
        return json.dumps(v, sort_keys=True, separators=(",", ":"), ensure_ascii=True)

    def meta_id(self, v):
        c = self._canon(v)
        if c not in self.meta_ids:
            mid = "m" + hashlib.sha1(c.encode()).hexdigest()[:10]
            self.meta_ids[c] = mid
            self.metas[mid] = v
        return self.meta_ids[c]

    def raw_id(self, b):
        if b is None:
            return "none"
        rid = "r" + hashlib.sha1(b).hexdigest()[:10]
        self.raws[rid] = b
        return rid

    # external files
    def add_ext(self, xid, path):
        self.exts[xid] = path
        self.ext_ids[os.path.realpath(path) if os.path.exists(path) else path] = xid
        self.ext_ids[path] = xid

    def lens(self):
        d = {b.id: b.len for b in self.blobs.values()}
        d["ABSENT"] = 0
        d["UNREADABLE"] = 0
        return d

    # entries
    def entry_abs(self, e):
        """reference-parsed entry or driver metadata json -> abstract entry"""
        integ = e["integrity"]
        raw = e.get("raw_metadata")
        if isinstance(raw, str):
            raw = bytes.fromhex(raw)
        return {"key": self.key_id(e["key"]),
                "sri": self.sri_abs(integ) if integ is not None else [],
                "time": str(e["time"]), "size": str(int(e["size"])),
                "meta": self.meta_id(e["metadata"]), "raw": self.raw_id(raw)}


def _entry_sort_key(e):
    return json.dumps(e, sort_keys=True)


def _json_depth(v):
    """nesting depth of a JSON value (scalars 0), computed without recursion"""
    best, stack = 0, [(v, 0)]
    while stack:
        x, dpt = stack.pop()
        if isinstance(x, (list, dict)):
            dpt += 1
            best = max(best, dpt)
            for y in (x.values() if isinstance(x, dict) else x):
                stack.append((y, dpt))
    return best


def _nest_of(v):
    """{"nest": n, "obj": bool, "leaf": x} if v is x wrapped n > 60 times in one-element arrays
    (or {"a": ..} objects), else None: such values are rebuilt inside the driver, a request
    cannot carry them through a JSON parser with a recursion limit"""
    if isinstance(v, dict) and sorted(v) == ["note", "tree"] and isinstance(v["note"], str):
        inner = _nest_of(v["tree"])
        return None if inner is None else dict(inner, note=v["note"])
    n, cur = 0, v
    obj = isinstance(v, dict)
    while True:
        if not obj and isinstance(cur, list) and len(cur) == 1:
            cur = cur[0]
        elif obj and isinstance(cur, dict) and list(cur) == ["a"]:
            cur = cur["a"]
        else:
            break
        n += 1
    if n <= 60 or isinstance(cur, (list, dict)):
        return None
    return {"nest": n, "obj": obj, "leaf": cur}


class Session:
    def __init__(self, workdir, universe=None, reflink=False, exact=False, total=False, layout=False,
                 relcache=False, fullfs=0, oddroot=False, twofs=False):
        self.dir = workdir
        os.makedirs(workdir, exist_ok=True)
        self.u = universe or Universe()
        self.trace = []
        self.drivers = {}
        self.ncache = 0
        self.root = None
        self.extdir = None
        self.reflink = reflink
        self.exact = exact
        self.total = total
        self.handles = {}        # abstract handle id -> (lane flavour, driver handle, info)
        self.nh = 0
        self.prev = None         # last projection (abstract)
        self.cases = set()       # distinct (op, lane, variant, outcome) tuples exercised
        self.ncalls = 0
        self.anomalies = []      # panics / hangs / deaths seen (for C20 attribution)
        self.cwd = {}            # flavour -> working directory its co-process was moved to
        self.layout = [] if layout else None   # byte-level layout events (TraceLayout.tla)
        self.prev_inv = None
        self.layout_quiet = False
        self.relcache = relcache   # the cache directory is passed as a RELATIVE path
        self.fullfs = fullfs       # KiB of a private tmpfs holding the cache (0 = the ordinary file system)
        self.oddroot = oddroot
        self.twofs = twofs         # (inside a private mount namespace) cache and destinations on two fresh tmpfs
        self.new_cache()

    # ------------------------------------------------------------ lifecycle
    def new_cache(self):
        for h in list(self.handles):
            self._drop_silently(h)
        self.ncache += 1
        self.tracked_modes = set()
        base = os.path.join(self.dir, "c%d" % self.ncache)
        shutil.rmtree(base, ignore_errors=True)
        self.root = os.path.join(base, "cache")
        if getattr(self, "oddroot", False):
            # the cache lives under a directory whose name is not valid UTF-8 (and has a space and a
            # non-ASCII character): paths are byte strings, nothing may pass through a lossy text form
            self.root = os.path.join(base, "d\udce9\udcff r\u00e9p", "cache")
        self.extdir = os.path.join(base, "ext")
        os.makedirs(self.root)
        os.makedirs(self.extdir)
        if getattr(self, "twofs", False):
            # two FRESH file systems: inode numbers start over on each, so a destination can carry
            # the very inode number of a content file - on another device
            for mp in (self.root, self.extdir):
                r_ = subprocess.run(["mount", "-t", "tmpfs", "-o", "size=16m", "tmpfs", mp], capture_output=True, text=True)
                if r_.returncode != 0:
                    raise ToolError("cannot mount a tmpfs at %s: %s" % (mp, r_.stderr))
        if self.trace:
            self.trace.append({"ev": "reset"})
        self.prev_inv = None
        self.prev = self.project()
        return self.root

    def _drop_silently(self, h):
        fl, dh, _ = self.handles.pop(h)
        try:
            self.driver(fl).call({"op": "h_drop", "h": dh})
        except Exception:
            pass

    def driver(self, flavour):
        d = self.drivers.get(flavour)
        if d is None or d.p.poll() is not None:
            d = Driver(flavour, tmpfs=(os.path.dirname(self.root), self.fullfs) if getattr(self, "fullfs", 0) else None)
            self.drivers[flavour] = d
        return d

    def close(self):
        for d in self.drivers.values():
            d.close()
        self.drivers = {}

    def remove_caches(self):
        for i in range(1, self.ncache + 1):
            shutil.rmtree(os.path.join(self.dir, "c%d" % i), ignore_errors=True)

    def write_trace(self, path, diag=False):
        hdr = {"ev": "init", "lens": self.u.lens(), "reflink": self.reflink,
               "exact": self.exact, "diag": diag, "total": self.total}
        with open(path, "w") as f:
            f.write(json.dumps(hdr) + "\n")
            for e in self.trace:
                f.write(json.dumps(e) + "\n")
        return path

    # ------------------------------------------------------------ projection
    def ext_path(self, xid):
        if xid not in self.u.exts or not self.u.exts[xid].startswith(self.extdir):
            self.u.add_ext(xid, os.path.join(self.extdir, xid))
        return self.u.exts[xid]

    def project(self):
        inv = R.walk_cache(self.root)
        if self.layout is not None:
            self._layout_diff(inv)
        self.prev_inv = inv
        buckets = []
        for rel in sorted(inv["buckets"]):
            owner = self.u.bucket_owner.get(rel, "?" + rel)
            lines = []
            for pl in R.parse_bucket(inv["buckets"][rel]):
                if pl[0] == "rec":
                    lines.append({"t": "rec", "r": self.u.entry_abs(pl[1])})
                else:
                    lines.append({"t": pl[0]})
            buckets.append({"key": owner, "lines": lines})
        store = []
        for rel in sorted(inv["content"]):
            parts = rel.split(os.sep)
            algo, hx = parts[1], parts[2] + parts[3] + parts[4]
            d = self.u.by_digest.get((algo, hx), "?" + hx[:16])
            kind, val = inv["content"][rel]
            if kind == "link":
                tgt = val
                xid = self.u.ext_ids.get(tgt) or self.u.ext_ids.get(os.path.realpath(
                    os.path.join(os.path.dirname(os.path.join(self.root, rel)), tgt)))
                c = {"k": "link", "to": xid if xid else "?" + tgt}
            else:
                c = {"k": "file", "b": self.u.blob_id_of_bytes(val)}
            store.append({"a": algo, "d": d, "c": c})
        ext = []
        if os.path.isdir(self.extdir):
            for name in sorted(os.listdir(self.extdir)):
                p = os.path.join(self.extdir, name)
                if os.path.isdir(p) and not os.path.islink(p):
                    continue
                try:
                    with open(p, "rb") as f:
                        ext.append({"id": name, "b": self.u.blob_id_of_bytes(f.read())})
                except OSError:
                    ext.append({"id": name, "b": "UNREADABLE"})
        for xid in sorted(getattr(self, "tracked_modes", ())):
            p = os.path.join(self.extdir, xid)
            try:
                ext.append({"id": xid + "#mode", "b": "mode-%o" % (os.lstat(p).st_mode & 0o777)})
            except OSError:
                pass
        ext.sort(key=lambda e: e["id"])
        return {"buckets": buckets, "store": store, "ext": ext, "tmp": len(inv["tmp"]),
                "hasIndex": inv["has_index"], "other": inv["other"]}

    def _layout_diff(self, inv):
        """what appeared on disk since the last projection, as byte-level facts for TraceLayout"""
        old = self.prev_inv
        if old is None or self.layout_quiet:
            return
        b = lambda x: list(x if isinstance(x, (bytes, bytearray)) else x.encode())
        for rel, data in inv["buckets"].items():
            prev = old["buckets"].get(rel, b"")
            if data == prev:
                continue
            parts = rel.split(os.sep)
            app = data[len(prev):] if data.startswith(prev) else data
            tab = app.find(b"\t")
            sha = app[1:tab] if tab > 0 else b""
            js = app[tab + 1:] if tab > 0 else b""
            fields, key = [], None
            try:
                pairs = json.loads(js.decode("utf-8"), object_pairs_hook=list)
                fields = [k for k, _ in pairs]
                key = dict(pairs).get("key")
            except Exception:
                pass
            self.layout.append({
                "ev": "frame", "path": [b(x) for x in parts],
                "key_sha1": b(hashlib.sha1(key.encode("utf-8")).hexdigest()) if isinstance(key, str) else [],
                "appended": b(app), "json_sha256": b(hashlib.sha256(js).hexdigest()), "json": b(js),
                "sha_field": b(sha), "fields": fields, "prefix_ok": data.startswith(prev)})
        for rel, (kind, val) in inv["content"].items():
            if rel in old["content"]:
                continue
            parts = rel.split(os.sep)
            algo = parts[1]
            if kind == "file":
                data = val
            else:
                try:
                    with open(os.path.join(self.root, rel), "rb") as f:
                        data = f.read()
                except OSError:
                    continue
            if algo == "xxh3":
                hx = self.u.xxh3_hex(self.u.blob_id_of_bytes(data))
            elif algo in R.HASHLIB:
                hx = R.digest_hex(algo, data)
            else:
                hx = ""
            self.layout.append({"ev": "content", "path": [b(x) for x in parts], "algo": algo,
                                "algo_b": b(algo), "hex": b(hx)})
        if inv["other"]:
            self.layout.append({"ev": "other", "n": len(inv["other"]), "paths": inv["other"][:5]})

    def write_layout_trace(self, path):
        with open(path, "w") as f:
            f.write(json.dumps({"ev": "init"}) + "\n")
            for e in self.layout:
                f.write(json.dumps(e) + "\n")
        return path

    def log_state(self):
        st = self.project()
        self.prev = st
        ev = {"ev": "state"}
        ev.update({k: st[k] for k in ("buckets", "store", "ext", "tmp", "hasIndex")})
        if st["other"]:
            ev["other"] = st["other"]
        self.trace.append(ev)
        return st

    def _bucket_lines(self, st, kid):
        for b in st["buckets"]:
            if b["key"] == kid:
                return b["lines"]
        return None

    # ------------------------------------------------------------ result abstraction
    def _err_abs(self, resp):
        if "panic" in resp:
            self.anomalies.append(("panic", resp["panic"]))
            return {"ok": False, "e": "PANIC"}
        if "died" in resp:
            self.anomalies.append(("died", resp["died"]))
            return {"ok": False, "e": "DIED"}
        err = resp["err"]
        v = err["variant"]
        if v == "Driver":
            raise ToolError("driver error: " + err.get("text", ""))
        if v == "EntryNotFound":
            return {"ok": False, "e": "EntryNotFound"}
        if v == "SizeMismatch":
            w = err["wanted"]
            return {"ok": False, "e": "SizeMismatch", "wanted": w if w < 2 ** 31 else -1, "actual": err["actual"]}
        if v == "IntegrityError":
            return {"ok": False, "e": "Integrity"}
        if v in ("IoError", "RawIo"):
            kind = err["io"]["kind"]
            return {"ok": False, "e": {"NotFound": "IoNotFound", "AlreadyExists": "IoExists"}.get(kind, "IoOther")}
        if v == "SerdeError":
            return {"ok": False, "e": "Serde"}
        return {"ok": False, "e": v}

    # ------------------------------------------------------------ the step interpreter
    def raw_call(self, lane, req):
        fl, _ = LANES[lane]
        req = dict(req)
        if self.relcache and "cache" not in req and req.get("op") != "chdir":
            # configuration: the caller names the cache by a relative path (with a redundant
            # component) from a working directory next to it
            base = os.path.dirname(self.root)
            name = os.path.basename(self.root)
            if not hasattr(self, "_sp_rng"):
                import random as _r
                self._sp_rng = _r.Random(len(self.dir) * 7919 + sum(map(ord, self.dir)))
            # ... or by other spellings of the same directory, a different one for every call:
            # trailing slash, doubled slashes and `.` components, through a symbolic link to it
            sp = self._sp_rng.choice(["rel", "rel", "slash", "dots", "symlink"])
            if req.pop("_force_rel", False):
                sp = "rel"
            elif req.get("op") in ("open_writer", "open_linker") and sp == "rel":
                # a handle keeps the path it was opened with: a relative one would be resolved
                # wherever the co-process happens to be when the handle is committed (only the
                # deliberate force_rel writers do that, and their commits are kept in a scratch
                # directory)
                sp = "dots"
            elif isinstance(req.get("target"), str) and not os.path.isabs(req["target"]):
                sp = "slash"            # (a relative link target was computed for the current directory)
            if sp == "rel":
                if self.cwd.get(fl) != base:
                    try:
                        base.encode("utf-8")
                        r = self.driver(fl).call({"op": "chdir", "dir": base})
                    except UnicodeEncodeError:
                        r = self.driver(fl).call({"op": "chdir", "dir_hex": os.fsencode(base).hex()})
                    if not r.get("ok"):
                        raise ToolError("chdir failed: %r" % r)
                    self.cwd[fl] = base
                req["cache"] = "./%s/../%s" % (name, name)
            elif sp == "slash":
                req["cache"] = self.root + "/"
            elif sp == "dots":
                req["cache"] = base + "/./" + name + "//"
            else:
                lk = os.path.join(base, name + "-via-link")
                if not os.path.islink(lk):
                    os.symlink(self.root, lk)
                req["cache"] = lk
        req.pop("_force_rel", None)
        req.setdefault("cache", self.root)
        for k_ in ("cache", "dir"):
            v_ = req.get(k_)
            if isinstance(v_, str):
                try:
                    v_.encode("utf-8")
                except UnicodeEncodeError:
                    # a path that is not valid UTF-8 (the session's cache may live under one)
                    req[k_ + "_hex"] = os.fsencode(req.pop(k_)).hex()
        self.ncalls += 1
        try:
            return self.driver(fl).call(req)
        except Hang:
            self.anomalies.append(("hang", req.get("op")))
            return {"hang": True}

    def _opname(self, lane, sync_name, async_name):
        _, is_sync = LANES[lane]
        if is_sync or async_name is None:
            return sync_name
        return async_name

    def _opts_conc(self, o):
        """abstract opts -> driver opts json"""
        c = {}
        if o.get("algo"):
            c["algo"] = o["algo"]
        if o.get("size") is not None:
            c["size"] = o["size"]
        if o.get("time") is not None:
            c["time"] = str(o["time"])
        if "meta" in o:
            nest = _nest_of(o["meta"])
            mv = o["meta"]
            if isinstance(mv, dict) and list(mv) == ["big"] and isinstance(mv["big"], str) \
                    and len(mv["big"]) > 100000 and set(mv["big"]) == {"M"}:
                nest = {"rep": len(mv["big"])}        # rebuilt inside the driver
            c["meta"] = {"v": o["meta"]} if nest is None else nest
        if o.get("raw") is not None:
            c["raw"] = o["raw"].hex()
        if o.get("sri"):
            c["sri"] = self.u.sri_conc(o["sri"])
        if o.get("decoy"):
            # earlier calls of the same setters with other values (only setters the real options
            # call again: the last call decides)
            c["decoy"] = self._opts_conc({k: v for k, v in o["decoy"].items() if k in o and k != "decoy"})
        return c

    def _opts_abs(self, o):
        big = o.get("size") is not None and o["size"] >= 2 ** 31
        if "meta" in o and _json_depth(o["meta"]) > 126:
            # the record (one level) plus this value exceeds the 128-level limit of the JSON reader
            return dict(self._opts_abs({k: v for k, v in o.items() if k != "meta"}),
                        meta=self.u.meta_id(o["meta"]), storable=False)
        return {"size": [o["size"]] if (o.get("size") is not None and not big) else [],
                "sizes": str(o["size"]) if o.get("size") is not None else "DEFAULT",
                "sri": self.u.sri_sorted(o["sri"]) if o.get("sri") else [],
                "time": str(o["time"]) if o.get("time") is not None else "DEFAULT",
                "meta": self.u.meta_id(o["meta"]) if "meta" in o else "DEFAULT",
                "raw": self.u.raw_id(o["raw"]) if o.get("raw") is not None else "DEFAULT"}

    def step(self, st):
        """Execute one abstract step, record call + state events, return the abstract result."""
        op = st["op"]
        lane = st.get("lane", "S")
        fn = getattr(self, "_do_" + op)
        before = self.prev
        sop, resp, absres = fn(st, lane)
        if sop is None:
            # a call whose outcome the caller cannot know (a cancelled write, and the writes that
            # follow it on the same handle): nothing is recorded now; the commit accounts for it
            return absres or {"ok": True, "v": "unknown"}
        if resp.get("hang"):
            absres = {"ok": False, "e": "HANG"}
        elif absres is None:
            absres = self._err_abs(resp)
        after = self.project()
        self.prev = after
        # the clock value the call used for a default timestamp: read from the record it appended
        okey = st.get("_owner")
        if okey is not None:
            sop["now"], sop["now_ok"] = self._observed_now(before, after, okey, resp)
        sop["lane"] = lane
        self.trace.append({"ev": "call", "op": sop, "res": absres})
        ev = {"ev": "state"}
        ev.update({k: after[k] for k in ("buckets", "store", "ext", "tmp", "hasIndex")})
        if after["other"]:
            ev["other"] = after["other"]
        self.trace.append(ev)
        self.cases.add((sop["op"], st.get("variant", ""), lane, absres.get("e", "ok")))
        return absres

    def _observed_now(self, before, after, kid, resp):
        lb = self._bucket_lines(before, kid) or []
        la = self._bucket_lines(after, kid) or []
        if len(la) > len(lb) and la[-1]["t"] == "rec":
            t = la[-1]["r"]["time"]
            try:
                ok = int(resp["t0"]) <= int(t) <= int(resp["t1"])
            except Exception:
                ok = False
            return t, ok
        return "0", True

    def oneshot_pid1(self, lane, reqs):
        """the requests in a process of its own that is PID 1 of a fresh pid namespace (as every
        container start is): whatever the library derives from its process id repeats"""
        fl, _ = LANES[lane]
        for r in reqs:
            r.setdefault("cache", self.root)
        p = subprocess.run(["unshare", "-Urpf", driver_path(fl), "ops", json.dumps(reqs)],
                           capture_output=True, text=True, timeout=120)
        lines = [json.loads(l) for l in p.stdout.splitlines() if l.strip()]
        return lines, p.returncode

    # ---- writes
    def _do_write(self, st, lane):
        blob = self.u.blobs[st["data"]]
        algo = st.get("algo", "sha256")
        variant = st.get("variant", "algo" if algo != "sha256" else "plain")
        keyed = "key" in st
        base = "write" if keyed else "write_hash"
        _, is_sync = LANES[lane]
        name = base + ("_sync" if is_sync else "") + ("_with_algo" if variant == "algo" else "")
        req = {"op": name, "data": blob.spec}
        if variant == "algo":
            req["algo"] = algo
        sop = {"op": "write", "data": st["data"], "algo": algo}
        if keyed:
            req["key"] = self.u.keys[st["key"]]
            sop["key"] = st["key"]
            st["_owner"] = st["key"]
        if algo == "xxh3":
            self.u.xxh3_hex(st["data"])
        if st.get("pid1"):
            lines, rc = self.oneshot_pid1(lane, [req])
            resp = lines[-1] if lines else {"ok": False, "died": rc}
        else:
            resp = self.raw_call(lane, req)
        if resp.get("ok"):
            return sop, resp, {"ok": True, "v": self.u.sri_abs(resp["val"])}
        return sop, resp, None

    def _do_index_insert(self, st, lane):
        _, is_sync = LANES[lane]
        name = "index_insert" if is_sync else "index_insert_async"
        o = st.get("opts", {})
        req = {"op": name, "key": self.u.keys[st["key"]], "opts": self._opts_conc(o)}
        sop = {"op": "index_insert", "key": st["key"], "opts": self._opts_abs(o)}
        st["_owner"] = st["key"]
        resp = self.raw_call(lane, req)
        if resp.get("ok"):
            return sop, resp, {"ok": True, "v": self.u.sri_abs(resp["val"]) if resp["val"] != "sha1-deadbeef"
                               else [{"a": "sha1", "d": "deadbeef"}]}
        return sop, resp, None

    # ---- retrieval
    def _target(self, st, req, sop):
        if "key" in st:
            req["key"] = self.u.keys[st["key"]]
            sop["key"] = st["key"]
        else:
            req["sri"] = self.u.sri_conc(st["sri"])
            sop["sri"] = self.u.sri_sorted(st["sri"])

    def _do_read(self, st, lane):
        keyed = "key" in st
        name = self._opname(lane, "read_sync" if keyed else "read_hash_sync", "read" if keyed else "read_hash")
        req, sop = {"op": name}, {"op": "read"}
        self._target(st, req, sop)
        resp = self.raw_call(lane, req)
        if resp.get("ok"):
            return sop, resp, {"ok": True, "v": self.u.blob_id_of_summary(resp["val"])}
        return sop, resp, None

    def _do_metadata(self, st, lane):
        if st.get("variant") == "index_find":
            name = self._opname(lane, "index_find", "index_find_async")
        else:
            name = self._opname(lane, "metadata_sync", "metadata")
        req = {"op": name, "key": self.u.keys[st["key"]]}
        sop = {"op": "metadata", "key": st["key"]}
        resp = self.raw_call(lane, req)
        if resp.get("ok"):
            v = resp["val"]
            return sop, resp, {"ok": True, "v": [] if v is None else [self.u.entry_abs(v)]}
        return sop, resp, None

    def _do_exists(self, st, lane):
        name = self._opname(lane, "exists_sync", "exists")
        req, sop = {"op": name}, {"op": "exists"}
        self._target(st, req, sop)
        resp = self.raw_call(lane, req)
        if resp.get("ok"):
            return sop, resp, {"ok": True, "v": bool(resp["val"])}
        return sop, resp, None

    def _do_list(self, st, lane):
        name = "index_ls" if st.get("variant") == "index_ls" else "list_sync"
        resp = self.raw_call(lane, {"op": name})
        sop = {"op": "list"}
        if resp.get("ok"):
            items = resp["val"]
            ents = sorted((self.u.entry_abs(i["ok"]) for i in items if "ok" in i), key=_entry_sort_key)
            errs = sum(1 for i in items if "err" in i)
            return sop, resp, {"ok": True, "v": ents, "errs": errs}
        return sop, resp, None

    EXTRACT = {
        # (kind, keyed, checked) -> (sync name, async name or None)
        ("copy", True, True): ("copy_sync", "copy"),
        ("copy", True, False): ("copy_unchecked_sync", "copy_unchecked"),
        ("copy", False, True): ("copy_hash_sync", "copy_hash"),
        ("copy", False, False): ("copy_hash_unchecked_sync", "copy_hash_unchecked"),
        ("hard_link", True, True): ("hard_link_sync", "hard_link"),
        ("hard_link", True, False): ("hard_link_unchecked_sync", None),
        ("hard_link", False, True): ("hard_link_hash_sync", None),
        ("hard_link", False, False): ("hard_link_hash_unchecked_sync", None),
        ("reflink", True, True): ("reflink_sync", "reflink"),
        ("reflink", True, False): ("reflink_unchecked_sync", "reflink_unchecked"),
        ("reflink", False, True): ("reflink_hash_sync", "reflink_hash"),
        ("reflink", False, False): ("reflink_hash_unchecked_sync", None),
    }

    def _do_extract(self, st, lane):
        keyed = "key" in st
        sn, an = self.EXTRACT[(st["kind"], keyed, st["checked"])]
        name = self._opname(lane, sn, an)
        req = {"op": name, "to": self.ext_path(st["to"])}
        sop = {"op": "extract", "kind": st["kind"], "checked": st["checked"], "to": st["to"]}
        self._target(st, req, sop)
        if st["to"] in getattr(self, "tracked_modes", ()):
            # the explicit destination of an extraction is the caller's to overwrite - permission
            # bits included (a copy carries the source's): its mode is no longer watched
            self.tracked_modes.discard(st["to"])
            self.trace.append({"ev": "env", "op": {"op": "env_ext", "id": st["to"] + "#mode", "b": []}})
        resp = self.raw_call(lane, req)
        if resp.get("ok"):
            v = resp["val"]
            return sop, resp, {"ok": True, "v": "unit" if v is None else int(v)}
        return sop, resp, None

    # ---- handles
    def _new_handle(self, lane, resp, info):
        self.nh += 1
        h = "h%d" % self.nh
        self.handles[h] = (LANES[lane][0], resp["val"]["h"], info)
        return h

    def _hcall(self, h, req):
        fl, dh, info = self.handles[h]
        req = dict(req)
        req["h"] = dh
        lane = info["lane"]
        # (a call on a handle names no cache: it must not re-spell the path, let alone change the
        # working directory, on the way)
        req["cache"] = self.root
        return self.raw_call(lane, req)

    def _do_open_writer(self, st, lane):
        _, is_sync = LANES[lane]
        o = dict(st.get("opts", {}))
        via = st.get("via", "opts")
        algo = o.get("algo") or st.get("algo") or "sha256"
        req = {"op": "open_writer", "sync": is_sync, "via": via}
        if via == "opts":
            req["opts"] = self._opts_conc(o)
        elif via == "create_with_algo":
            req["algo"] = algo
        h = "h%d" % (self.nh + 1)
        sop = {"op": "open_writer", "h": h, "algo": algo,
               "opts": self._opts_abs(o if via == "opts" else {}), "plan": st.get("plan", "na")}
        if "key" in st:
            req["key"] = self.u.keys[st["key"]]
            sop["key"] = st["key"]
        if st.get("force_rel"):
            req["_force_rel"] = True
        resp = self.raw_call(lane, req)
        if resp.get("ok"):
            self._new_handle(lane, resp, {"lane": lane, "kind": "writer", "key": st.get("key"),
                                          "fed": b"", "algo": algo,
                                          "rel_open": bool(st.get("force_rel") and self.relcache)})
            return sop, resp, {"ok": True, "v": "handle"}
        return sop, resp, None

    def _chunk_bytes(self, st):
        if "bytes" in st:
            return st["bytes"], {"hex": st["bytes"].hex()}
        b = self.u.blobs[st["data"]]
        lo, hi = st.get("from", 0), st.get("to", b.len)
        data = b.bytes()[lo:hi]
        if "gen" in (b.spec or {}):
            return data, {"gen": list(b.spec["gen"]) + [lo, hi]}
        return data, {"hex": data.hex()}

    def _do_w_write(self, st, lane):
        h = st["h"]
        data, spec = self._chunk_bytes(st)
        info0 = self.handles[h][2]
        if (st.get("cancel") and not LANES[lane][1] and len(data) > 0) or info0.get("uncertain"):
            # the write future is polled once and dropped (select!/timeout style): the caller
            # learns nothing about the chunk, and what later writes on this handle report is no
            # longer tied to their own bytes.  The properties say nothing about WHICH bytes such
            # a writer holds - only that what it commits is consistent (address = digest of the
            # stored bytes, entry = that address and length).  So nothing is recorded for these
            # calls; w_commit reconstructs the byte count from what was stored.
            if st.get("cancel") and not info0.get("uncertain"):
                resp = self._hcall(h, {"op": "w_write_cancel", "data": spec})
                info0["uncertain"] = True
            else:
                resp = self._hcall(h, {"op": "w_write", "data": spec, "all": st.get("all", True)})
            if not resp.get("ok") and resp.get("err", {}).get("variant") == "Driver":
                raise ToolError("driver error: %r" % resp)
            if "panic" in resp or "died" in resp or resp.get("hang"):
                # WHAT such a write reports is free; THAT it returns is not (C20): a panic, a
                # dead process or a hang is recorded as the result of this call, and no action of
                # the trace specification produces it
                return {"op": "w_write", "h": h, "len": len(data), "all": True}, resp, None
            return None, resp, {"ok": bool(resp.get("ok")), "v": "unknown"}
        if st.get("copy_step"):
            # the chunk arrives through io::copy from a reader that delivers copy_step bytes per read
            resp = self._hcall(h, {"op": "w_copy_from", "data": spec, "step": st["copy_step"]})
            whole = False
        elif st.get("vectored"):
            # one write_vectored call with the chunk split into several buffers (some empty)
            k = st["vectored"]
            cuts = sorted({0, len(data)} | {(len(data) * i) // k for i in range(1, k)})
            parts = [data[cuts[i]:cuts[i + 1]] for i in range(len(cuts) - 1)] or [b""]
            parts.insert(min(1, len(parts)), b"")
            resp = self._hcall(h, {"op": "w_write_vectored", "datas": [{"hex": p.hex()} for p in parts]})
            whole = False
        else:
            whole = st.get("all", True)
            resp = self._hcall(h, {"op": "w_write", "data": spec, "all": whole})
        info = self.handles[h][2]
        sop = {"op": "w_write", "h": h, "len": len(data), "all": bool(whole)}
        if resp.get("ok"):
            n = int(resp["val"])
            info["fed"] += data[:n]
            sop["len"] = n if not whole else len(data)
            info["n_rec"] = info.get("n_rec", 0) + sop["len"]
            return sop, resp, {"ok": True, "v": n}
        return sop, resp, None

    def _do_w_flush(self, st, lane):
        resp = self._hcall(st["h"], {"op": "w_flush"})
        sop = {"op": "w_flush", "h": st["h"]}
        return sop, resp, ({"ok": True, "v": "unit"} if resp.get("ok") else None)

    def _do_w_close(self, st, lane):
        resp = self._hcall(st["h"], {"op": "w_close"})
        sop = {"op": "w_close", "h": st["h"]}
        return sop, resp, ({"ok": True, "v": "unit"} if resp.get("ok") else None)

    def _do_w_commit(self, st, lane):
        h = st["h"]
        fl, dh, info = self.handles[h]
        resp = None
        if info.get("uncertain"):
            # commit first, then read back what was stored under the address it returned: THOSE
            # are the bytes this writer held (TLC checks that the address is their digest, that
            # the entry carries it and their length); the unrecorded writes are summed up in one
            # synthetic w_write event in front of the commit
            resp = self._hcall(h, {"op": "w_commit"})
            if resp.get("ok"):
                try:
                    a_, hx_ = R.parse_sri(resp["val"])[0]
                    with open(os.path.join(self.root, R.content_relpath(a_, hx_)), "rb") as f:
                        info["fed"] = f.read()
                except (OSError, IndexError, ValueError):
                    pass
            delta = len(info["fed"]) - info.get("n_rec", 0)
            if delta >= 0:
                self.trace.append({"ev": "call", "op": {"op": "w_write", "h": h, "len": delta, "all": True, "lane": lane},
                                   "res": {"ok": True, "v": delta}})
                ev = {"ev": "state"}
                ev.update({k: self.prev[k] for k in ("buckets", "store", "ext", "tmp", "hasIndex")})
                self.trace.append(ev)
        fed_id = self.u.blob_id_of_bytes(info["fed"])
        if info.get("algo") == "xxh3":
            self.u.xxh3_hex(fed_id)
        sop = {"op": "w_commit", "h": h, "fed": fed_id}
        # (decided by where the process IS when it commits: in an interleaved program another
        # call may have moved it back)
        ed_ = os.path.join(self.dir, "elsewhere-cwd")
        if info.get("rel_open") and self.cwd.get(fl) not in (os.path.dirname(self.root), ed_):
            # an interleaved part moved this co-process somewhere else (the external files'
            # directory, "/"): a relative cache path would be resolved THERE.  The harness keeps
            # such commits inside its own scratch directory.
            os.makedirs(ed_, exist_ok=True)
            r_ = self.driver(fl).call({"op": "chdir", "dir": ed_})
            if not r_.get("ok"):
                raise ToolError("chdir failed: %r" % r_)
            self.cwd[fl] = ed_
        elsewhere = bool(info.get("rel_open") and not info.get("gone") and self.cwd.get(fl) == ed_)
        if elsewhere:
            # opened through a relative cache path, committed from another working directory:
            # everything lands in the cache that path names NOW; this cache only loses the temp file
            sop["elsewhere"] = True
        elif info.get("key"):
            st["_owner"] = info["key"]
        if resp is None:
            resp = self._hcall(h, {"op": "w_commit"})
        self.handles.pop(h, None)
        if elsewhere:
            ed = os.path.join(self.dir, "elsewhere-cwd")
            for name in os.listdir(ed):
                shutil.rmtree(os.path.join(ed, name), ignore_errors=True)
        if resp.get("ok"):
            return sop, resp, {"ok": True, "v": self.u.sri_abs(resp["val"])}
        return sop, resp, None

    def _do_h_drop(self, st, lane):
        h = st["h"]
        if st.get("inflight"):
            data, spec = self._chunk_bytes(st)
            resp = self._hcall(h, {"op": "w_poll_write_drop", "data": spec})
        else:
            resp = self._hcall(h, {"op": "h_drop"})
        self.handles.pop(h, None)
        sop = {"op": "h_drop", "h": h}
        if resp.get("ok"):
            self.wait_tmp_quiescent()
            return sop, resp, {"ok": True, "v": "unit"}
        return sop, resp, None

    def wait_tmp_quiescent(self, bound=10.0):
        """Background work of a dropped async writer may still be finishing: poll tmp/ until the
        number of files matches the number of live writer handles (or the generous bound
        expires; a leaked file stays forever, so the bound cannot hide a leak)."""
        live = sum(1 for (_, _, i) in self.handles.values()
                   if i["kind"] == "writer" and not i.get("closed"))
        t0 = time.time()
        tmpd = os.path.join(self.root, "tmp")
        while time.time() - t0 < bound:
            try:
                n = len(os.listdir(tmpd))
            except OSError:
                n = 0
            if n <= live:
                return
            time.sleep(0.002)

    def _do_open_reader(self, st, lane):
        _, is_sync = LANES[lane]
        req = {"op": "open_reader", "sync": is_sync}
        h = "h%d" % (self.nh + 1)
        sop = {"op": "open_reader", "h": h}
        self._target(st, req, sop)
        # what the content path holds now (the reference reads it, for the slice facts)
        resp = self.raw_call(lane, req)
        if resp.get("ok"):
            snap = self._content_bytes_for(st)
            self._new_handle(lane, resp, {"lane": lane, "kind": "reader", "snap": snap, "pos": 0,
                                          "delivered": b""})
            return sop, resp, {"ok": True, "v": "handle"}
        return sop, resp, None

    def _content_bytes_for(self, st):
        """bytes at the content path a reader of this target opens (independent of the library)"""
        if "key" in st:
            rel = R.bucket_relpath(self.u.keys[st["key"]])
            try:
                with open(os.path.join(self.root, rel), "rb") as f:
                    e = R.lookup(R.parse_bucket(f.read()), self.u.keys[st["key"]])
            except OSError:
                e = None
            if e is None:
                return None
            hashes = R.parse_sri(e["integrity"])
        else:
            hashes = R.parse_sri(self.u.sri_conc(st["sri"]))
        a, hx = hashes[0]
        try:
            with open(os.path.join(self.root, R.content_relpath(a, hx)), "rb") as f:
                return f.read()
        except OSError:
            return None

    def _do_r_read(self, st, lane):
        h = st["h"]
        info = self.handles[h][2]
        if st.get("to_end"):
            # Read::read_to_end / AsyncReadExt::read_to_end into a vector that already holds bytes
            req = {"op": "r_read_to_end"}
            pf = st.get("prefill")
            if pf == "same":
                snap0 = info["snap"] or b""
                orig = self.u.blobs.get(st.get("orig", ""), None)
                data = orig.bytes() if orig is not None else snap0
                req["prefill"] = {"hex": data.hex()} if len(data) <= 65536 else {"gen": orig.spec["gen"]}
            elif pf:
                req["prefill"] = {"hex": pf}
            resp = self._hcall(h, req)
            n_spec = 1 << 30
        elif st.get("copy"):
            resp = self._hcall(h, {"op": "r_copy"})
            n_spec = 1 << 30
        elif st.get("all"):
            resp = self._hcall(h, {"op": "r_read_all", "n": st["n"]})
            n_spec = 1 << 30
        else:
            req = {"op": "r_read", "n": st["n"]}
            fl_ = self.handles[h][0]
            hl_ = info.get("lane", lane)        # (the lane the HANDLE was opened on decides its type)
            if st.get("split") and (LANES[hl_][1] or fl_ == "asyncstd"):
                # Read::read_vectored / AsyncReadExt::read_vectored: ONE call filling several buffers
                # (tokio's AsyncRead has no vectored read: a plain read of the same total there)
                req["split"] = [min(x, st["n"]) for x in st["split"]]
            resp = self._hcall(h, req)
            n_spec = st["n"]
        sop = {"op": "l_read" if info["kind"] == "linker" else "r_read", "h": h, "n": n_spec,
               "slice_ok": False}
        if resp.get("ok"):
            v = resp["val"]
            cnt = v["len"]
            if st.get("split") and 0 < cnt <= st["n"]:
                # a scatter read may fill fewer buffers than it was given (the provided
                # read_vectored fills the first non-empty one): any count up to the total is fine
                sop["n"] = cnt
            snap = info["snap"] or b""
            exp = snap[info["pos"]:info["pos"] + cnt]
            sop["slice_ok"] = (hashlib.sha256(exp).hexdigest() == v["sha256"] and len(exp) == cnt)
            info["pos"] += cnt
            info["delivered"] += exp if sop["slice_ok"] else (bytes.fromhex(v["hex"]) if "hex" in v else b"?" * cnt)
            return sop, resp, {"ok": True, "v": cnt}
        return sop, resp, None

    def _do_r_check(self, st, lane):
        h = st["h"]
        info = self.handles[h][2]
        sop = {"op": "r_check", "h": h, "delivered": self.u.blob_id_of_bytes(info["delivered"])}
        resp = self._hcall(h, {"op": "r_check"})
        self.handles.pop(h, None)
        if resp.get("ok"):
            return sop, resp, {"ok": True, "v": resp["val"]}
        return sop, resp, None

    # ---- removal
    def _do_remove(self, st, lane):
        v = st.get("variant", "plain")
        if v == "index_delete":
            name = self._opname(lane, "index_delete", "index_delete_async")
        elif v == "opts":
            name = self._opname(lane, "remove_opts_sync", "remove_opts")
        else:
            name = self._opname(lane, "remove_sync", "remove")
        st["_owner"] = st["key"]
        resp = self.raw_call(lane, {"op": name, "key": self.u.keys[st["key"]], "resets": st.get("resets", 0)})
        sop = {"op": "remove", "key": st["key"]}
        return sop, resp, ({"ok": True, "v": "unit"} if resp.get("ok") else None)

    def _do_remove_hash(self, st, lane):
        name = self._opname(lane, "remove_hash_sync", "remove_hash")
        req, sop = {"op": name}, {"op": "remove_hash"}
        self._target(st, req, sop)
        resp = self.raw_call(lane, req)
        return sop, resp, ({"ok": True, "v": "unit"} if resp.get("ok") else None)

    def _do_remove_fully(self, st, lane):
        name = self._opname(lane, "remove_fully_sync", "remove_fully")
        resp = self.raw_call(lane, {"op": name, "key": self.u.keys[st["key"]], "resets": st.get("resets", 0)})
        sop = {"op": "remove_fully", "key": st["key"]}
        return sop, resp, ({"ok": True, "v": "unit"} if resp.get("ok") else None)

    def _do_clear(self, st, lane):
        name = self._opname(lane, "clear_sync", "clear")
        resp = self.raw_call(lane, {"op": name})
        for (_, _, i) in self.handles.values():
            if i["kind"] == "writer":
                i["gone"] = True
        sop = {"op": "clear"}
        return sop, resp, ({"ok": True, "v": "unit"} if resp.get("ok") else None)

    # ---- link_to
    def _target_path(self, st, lane):
        """absolute path of the target, or (relative: true) the path relative to the driver's cwd"""
        p = self.ext_path(st["target"])
        # the same file named through another spelling: prefix (a lexically clean directory) + tail
        d, name = os.path.split(p)
        sp = st.get("spelling") or "plain"
        hop = os.path.join(os.path.dirname(self.extdir), "hops")
        sub = os.path.join(d, "sub.d")
        if sp != "plain":
            os.makedirs(hop, exist_ok=True)
            os.makedirs(sub, exist_ok=True)
        if sp == "dot":
            prefix, tail = d, "./" + name
        elif sp == "slashes":
            prefix, tail = d, "/" + name                      # d//name
        elif sp == "dotdot_real":
            prefix, tail = d, "sub.d/../" + name
        elif sp == "dotdot_symlink":
            # alias -> <ext>/sub.d : the kernel resolves alias/.. to <ext>, folding the text
            # "alias/.." away lexically would name <hops>/name instead
            a = os.path.join(hop, "alias")
            if not os.path.islink(a):
                os.symlink(sub, a)
            prefix, tail = hop, "alias/../" + name
        elif sp == "symlink_dir":
            a = os.path.join(hop, "ext-alias")
            if not os.path.islink(a):
                os.symlink(d, a)
            prefix, tail = hop, "ext-alias/" + name
        else:
            prefix, tail = d, name
        if st.get("relative"):
            cwd = self.cwd.get(LANES[lane][0])
            if cwd:
                return os.path.relpath(prefix, cwd) + "/" + tail
        return prefix + "/" + tail

    def _do_link_to(self, st, lane):
        keyed = "key" in st
        name = self._opname(lane, "link_to_sync" if keyed else "link_to_hash_sync",
                            "link_to" if keyed else "link_to_hash")
        tpath = self._target_path(st, lane)
        req = {"op": name, "target": tpath}
        sop = {"op": "link_to", "target": st["target"]}
        if keyed:
            req["key"] = self.u.keys[st["key"]]
            sop["key"] = st["key"]
            st["_owner"] = st["key"]
        resp = self.raw_call(lane, req)
        if resp.get("ok"):
            return sop, resp, {"ok": True, "v": self.u.sri_abs(resp["val"])}
        return sop, resp, None

    def _do_open_linker(self, st, lane):
        _, is_sync = LANES[lane]
        tpath = self._target_path(st, lane)
        req = {"op": "open_linker", "sync": is_sync, "target": tpath}
        o = dict(st.get("opts") or {})
        h = "h%d" % (self.nh + 1)
        try:
            with open(self.ext_path(st["target"]), "rb") as f:
                snap = f.read()
        except OSError:
            snap = None
        if st.get("opts") is not None:
            req["opts"] = self._opts_conc(o)
        else:
            # ToLinker::open declares the size it finds
            o = {"size": len(snap) if snap is not None else 0}
        algo = o.get("algo") or "sha256"
        sop = {"op": "open_linker", "h": h, "target": st["target"], "algo": algo,
               "opts": self._opts_abs(o)}
        if "key" in st:
            req["key"] = self.u.keys[st["key"]]
            sop["key"] = st["key"]
        resp = self.raw_call(lane, req)
        if resp.get("ok"):
            self._new_handle(lane, resp, {"lane": lane, "kind": "linker", "key": st.get("key"),
                                          "snap": snap, "pos": 0, "delivered": b""})
            return sop, resp, {"ok": True, "v": "handle"}
        return sop, resp, None

    def _do_l_commit(self, st, lane):
        h = st["h"]
        info = self.handles[h][2]
        if info.get("key"):
            st["_owner"] = info["key"]
        sop = {"op": "l_commit", "h": h}
        resp = self._hcall(h, {"op": "l_commit"})
        self.handles.pop(h, None)
        if resp.get("ok"):
            return sop, resp, {"ok": True, "v": self.u.sri_abs(resp["val"])}
        return sop, resp, None

    # ------------------------------------------------------------ environment events
    def _quiet_state(self):
        self.layout_quiet = True
        try:
            self.log_state()
        finally:
            self.layout_quiet = False

    def env_set_ext(self, xid, data, mode=None):
        p = self.ext_path(xid)
        tracked = getattr(self, "tracked_modes", None)
        if tracked is None:
            tracked = self.tracked_modes = set()
        if data is None:
            try:
                os.unlink(p)
            except FileNotFoundError:
                pass
            b = []
        else:
            with open(p, "wb") as f:
                f.write(data)
            b = [self.u.blob_id_of_bytes(data)]
        self.trace.append({"ev": "env", "op": {"op": "env_ext", "id": xid, "b": b}})
        # the permission bits of an external file are part of the projection once the harness has
        # set them (pseudo entry "<id>#mode"): no library call may change them
        if data is None and xid in tracked:
            tracked.discard(xid)
            self.trace.append({"ev": "env", "op": {"op": "env_ext", "id": xid + "#mode", "b": []}})
        elif data is not None and mode is not None:
            os.chmod(p, mode)
            tracked.add(xid)
            self.trace.append({"ev": "env", "op": {"op": "env_ext", "id": xid + "#mode", "b": ["mode-%o" % mode]}})
        self._quiet_state()

    def env_chmod(self, xid, mode):
        p = self.ext_path(xid)
        if not os.path.lexists(p) or os.path.islink(p):
            return
        os.chmod(p, mode)
        if not hasattr(self, "tracked_modes"):
            self.tracked_modes = set()
        self.tracked_modes.add(xid)
        self.trace.append({"ev": "env", "op": {"op": "env_ext", "id": xid + "#mode", "b": ["mode-%o" % mode]}})
        self._quiet_state()

    def content_path(self, algo, blob_id):
        if algo == "xxh3":
            hx = self.u.xxh3_hex(blob_id)
        else:
            hx = R.digest_hex(algo, self.u.blobs[blob_id].bytes())
        return os.path.join(self.root, R.content_relpath(algo, hx))

    def env_set_content(self, algo, blob_id, data=None, link_to=None, path=None):
        """Replace (or remove, data=None and link_to=None) the content file of an address."""
        p = path or self.content_path(algo, blob_id)
        try:
            os.unlink(p)
        except FileNotFoundError:
            pass
        if link_to is not None:
            os.makedirs(os.path.dirname(p), exist_ok=True)
            os.symlink(self.ext_path(link_to), p)
            c = [{"k": "link", "to": link_to}]
        elif data is not None:
            os.makedirs(os.path.dirname(p), exist_ok=True)
            with open(p, "wb") as f:
                f.write(data)
            c = [{"k": "file", "b": self.u.blob_id_of_bytes(data)}]
        else:
            c = []
        self.trace.append({"ev": "env", "op": {"op": "env_content",
                                               "addr": {"a": algo, "d": blob_id}, "c": c}})
        self._quiet_state()

    def env_damage_inplace(self, algo, blob_id, data, keep_mtime=False):
        """Overwrite the content file of an address IN PLACE (same inode): every hard link of it
        outside the cache - the destinations of earlier hard_link extractions - changes with it,
        and the trace says so (one env_ext event per alias) before the state is logged."""
        p = self.content_path(algo, blob_id)
        st0 = os.stat(p)
        with open(p, "r+b") as f:
            f.truncate(0)
            f.write(data)
        if keep_mtime:
            os.utime(p, ns=(st0.st_atime_ns, st0.st_mtime_ns))
        bid = self.u.blob_id_of_bytes(data)
        self.trace.append({"ev": "env", "op": {"op": "env_content", "addr": {"a": algo, "d": blob_id},
                                               "c": [{"k": "file", "b": bid}]}})
        if os.path.isdir(self.extdir):
            for name in sorted(os.listdir(self.extdir)):
                q = os.path.join(self.extdir, name)
                try:
                    st1 = os.lstat(q)
                except OSError:
                    continue
                if (st1.st_dev, st1.st_ino) == (st0.st_dev, st0.st_ino):
                    self.trace.append({"ev": "env", "op": {"op": "env_ext", "id": name, "b": [bid]}})
        self._quiet_state()

    def bucket_path(self, kid):
        return os.path.join(self.root, R.bucket_relpath(self.u.keys[kid]))

    def env_set_bucket(self, kid, data):
        """Replace the bytes of a key's bucket file (None removes the file)."""
        p = self.bucket_path(kid)
        if data is None:
            try:
                os.unlink(p)
            except FileNotFoundError:
                pass
            lines = []
        else:
            os.makedirs(os.path.dirname(p), exist_ok=True)
            with open(p, "wb") as f:
                f.write(data)
            ls = []
            for pl in R.parse_bucket(data):
                ls.append({"t": "rec", "r": self.u.entry_abs(pl[1])} if pl[0] == "rec" else {"t": pl[0]})
            lines = [ls]
        self.trace.append({"ev": "env", "op": {"op": "env_bucket", "key": kid, "lines": lines}})
        self._quiet_state()


# ---------------------------------------------------------------------------------------
# Programs: JSON-able, replayable descriptions of a run (universe + abstract steps)
# ---------------------------------------------------------------------------------------

def load_universe(u, prog):
    for kid, s in prog.get("keys", {}).items():
        u.add_key(kid, s)
    for bid, spec in prog.get("blobs", {}).items():
        if "hex" in spec:
            b = u.add_blob(data=bytes.fromhex(spec["hex"]))
        else:
            b = u.add_blob(gen=tuple(spec["gen"]))
        if b.id != bid:
            raise ToolError("program blob id %s does not name its bytes (%s)" % (bid, b.id))


def _dec_opts(o):
    if o is None:
        return None
    o = dict(o)
    if isinstance(o.get("raw"), dict):
        o["raw"] = bytes.fromhex(o["raw"]["hex"])
    if isinstance(o.get("decoy"), dict):
        o["decoy"] = _dec_opts(o["decoy"])
    return o


def _damage(data, st):
    mode = st["mode"]
    if mode == "flip":
        if not data:
            return None
        bit = st["bit"] % (len(data) * 8)
        b = bytearray(data)
        b[bit // 8] ^= 1 << (bit % 8)
        return bytes(b)
    if mode == "cut":
        n = st["len"]
        if n >= len(data):
            return None
        return data[:n]
    if mode == "extend":
        return data + bytes.fromhex(st["extra"])
    if mode == "empty":
        return b"" if data else None
    if mode == "overwrite":
        off = st["off"] % max(1, len(data))
        new = bytes.fromhex(st["bytes"])
        return data[:off] + new + data[off + len(new):]
    if mode == "insert":
        off = min(st["off"], len(data))
        return data[:off] + bytes.fromhex(st["bytes"]) + data[off:]
    if mode == "set":
        return bytes.fromhex(st["bytes"])
    if mode == "pad_to":
        # a junk line in FRONT of the records, sized so that the file is exactly a multiple of m
        # bytes long (read-buffer sizes): the last record - which no newline terminates - ends
        # precisely where a full buffer ends
        m = st["multiple"]
        n = (-(len(data) + 1)) % m
        return b"\n" + b"#" * n + data if data.startswith(b"\n") else b"#" * n + b"\n" + data
    if mode == "hash_field":
        # the index-th record line keeps characters [a, b) of its checksum field (+ pad) in front
        # of the unchanged tab and payload
        lines = data.split(b"\n")
        recs = [j for j, l in enumerate(lines) if l.count(b"\t") == 1 and len(l.split(b"\t")[0]) == 64]
        if not recs:
            return None
        j = recs[st["index"] % len(recs)]
        hx, body = lines[j].split(b"\t")
        a, b = st["keep"]
        lines[j] = hx[a:b] + st.get("pad", "").encode() + b"\t" + body
        return b"\n".join(lines)
    if mode == "glue":
        # bytes glued directly behind the index-th record line (no newline in between)
        lines = data.split(b"\n")
        if len(lines) < 2:
            return None
        i = 1 + st["index"] % (len(lines) - 1)
        lines[i] = lines[i] + bytes.fromhex(st["bytes"])
        return b"\n".join(lines)
    if mode == "dos":
        # the whole bucket with DOS line endings and a final terminator (an editor, a checkout
        # with autocrlf): every record line ends in CR LF
        return data.replace(b"\n", b"\r\n") + b"\r\n"
    if mode == "flip_nl":
        # one bit of the index-th NEWLINE byte (the separators are bytes like any other)
        offs = [j for j, c in enumerate(data) if c == 10]
        if not offs:
            return None
        j = offs[st["index"] % len(offs)]
        b = bytearray(data)
        b[j] ^= 1 << (st["bit"] % 8)
        return bytes(b)
    if mode in ("insert_line", "dup_line", "swap_lines", "drop_nl"):
        lines = data.split(b"\n")
        if mode == "insert_line":
            i = min(st["index"], len(lines))
            lines.insert(i, bytes.fromhex(st["bytes"]))
        elif mode == "dup_line":
            if len(lines) < 2:
                return None
            lines.append(lines[1 + st["index"] % (len(lines) - 1)])
        elif mode == "swap_lines":
            if len(lines) < 3:
                return None
            i = 1 + st["i"] % (len(lines) - 1)
            j = 1 + st["j"] % (len(lines) - 1)
            lines[i], lines[j] = lines[j], lines[i]
        elif mode == "drop_nl":
            if len(lines) < 3:
                return None
            i = 1 + st["index"] % (len(lines) - 2)
            lines[i:i + 2] = [lines[i] + lines[i + 1]]
        return b"\n".join(lines)
    raise ToolError("unknown damage mode " + mode)


def run_program(sess, prog, on_step=None):
    """Interpret a program on a Session.  Returns the list of abstract results."""
    load_universe(sess.u, prog)
    alias = {}
    results = []
    slots = {}
    for i, st0 in enumerate(prog["steps"]):
        st = dict(st0)
        op = st["op"]
        if op == "new_cache":
            sess.new_cache()
            alias = {}
            results.append(None)
            continue
        if op == "env_raw":
            # states outside the abstract model (only used in totality mode, see TraceAPI)
            act = st["action"]
            if act == "bucket_dir":
                bp = sess.bucket_path(st["key"])
                if os.path.isfile(bp):
                    os.unlink(bp)
                os.makedirs(bp, exist_ok=True)
            elif act == "content_dir":
                cp = sess.content_path(st["algo"], st["blob"])
                if os.path.isfile(cp) or os.path.islink(cp):
                    os.unlink(cp)
                os.makedirs(cp, exist_ok=True)
            elif act in ("tmp_file", "index_file", "content_file"):
                name = {"tmp_file": "tmp", "index_file": "index-v5", "content_file": "content-v2"}[act]
                tp = os.path.join(sess.root, name)
                shutil.rmtree(tp, ignore_errors=True)
                with open(tp, "wb") as f:
                    f.write(b"not a directory")
            elif act == "root_gone":
                shutil.rmtree(sess.root, ignore_errors=True)
            elif act == "stray":
                # a file that is no key's bucket under index-v5 (abstractly: Cacache!EnvStray)
                bp = os.path.relpath(sess.bucket_path(st["key"]), os.path.join(sess.root, "index-v5")).split(os.sep)
                where = {"top": [], "prefix": bp[:1], "leaf": bp[:2]}[st["where"]]
                dp = os.path.join(sess.root, "index-v5", *where)
                os.makedirs(dp, exist_ok=True)
                with open(os.path.join(dp, st["name"]), "wb") as f:
                    f.write(bytes(st.get("bytes", [])))
                sess.trace.append({"ev": "env", "op": {"op": "env_stray"}})
                results.append(None)
                continue
            elif act == "age_all":
                # time passes: everything in the cache directory (temp files of writers that are still
                # open included) looks two hours old - nothing may be reclaimed for being "stale"
                old_t = time.time() - 7200
                for dp, dns, fns in os.walk(sess.root):
                    for n_ in fns + dns:
                        try:
                            os.utime(os.path.join(dp, n_), (old_t, old_t), follow_symlinks=False)
                        except OSError:
                            pass
                results.append(None)
                continue
            elif act == "root_symlink_ext":
                # a symbolic link directly under the cache root pointing at the directory of the
                # external files: nothing a removal does may pass through it
                lp = os.path.join(sess.root, "zz-shared")
                os.makedirs(sess.root, exist_ok=True)
                os.makedirs(sess.extdir, exist_ok=True)
                if not os.path.lexists(lp):
                    os.symlink(sess.extdir, lp)
                results.append(None)
                continue
            elif act == "bucket_fifo_like_empty":
                bp = sess.bucket_path(st["key"])
                os.makedirs(os.path.dirname(bp), exist_ok=True)
                open(bp, "wb").close()
            sess.trace.append({"ev": "env", "op": {"op": "env_raw", "action": act}})
            results.append(None)
            continue
        if op == "pid1_abandon":
            # a process that is PID 1 of its namespace opens a writer, feeds it and DIES: its temp
            # file stays (Cacache!EnvTmp); later processes - PID 1 again - must not trip over it
            lane = st.get("lane", "S")
            blob = sess.u.blobs[st["data"]]
            before = sess.project()["tmp"]
            ow = {"op": "open_writer", "sync": LANES[lane][1], "via": "opts", "opts": {"algo": "sha256"}}
            if "key" in st:
                ow["key"] = sess.u.keys[st["key"]]
            sess.oneshot_pid1(lane, [ow, {"op": "w_write", "h": 1, "data": blob.spec, "all": True}, {"op": "die"}])
            after = sess.project()
            sess.prev = after
            sess.norphan = getattr(sess, "norphan", 0) + 1
            sess.trace.append({"ev": "env", "op": {"op": "env_tmp", "n": 1 if after["tmp"] > before else 0,
                                                   "h": "orphan%d" % sess.norphan}})
            sess._quiet_state()
            results.append(None)
            continue
        if op in ("fs_fill", "fs_free"):
            # (sessions whose co-processes live on a private small tmpfs, total mode)
            r = sess.raw_call(st.get("lane", "S"), {"op": op, "dir": os.path.dirname(sess.root), "leave": st.get("leave", 0)})
            if "died" in r:
                raise ToolError("driver died in %s" % op)
            sess.trace.append({"ev": "env", "op": {"op": "env_raw", "action": op}})
            results.append(None)
            continue
        if op == "chdir":
            elsewhere = os.path.join(sess.dir, "elsewhere-cwd")
            os.makedirs(elsewhere, exist_ok=True)
            where = {"ext": sess.extdir, "root": sess.root, "base": os.path.dirname(sess.root), "/": "/",
                     "elsewhere": elsewhere}[st["to"]]
            r = sess.raw_call(st.get("lane", "S"), {"op": "chdir", "dir": where})
            if not r.get("ok"):
                raise ToolError("chdir failed in driver: %r" % r)
            sess.cwd[LANES[st.get("lane", "S")][0]] = where
            results.append(None)
            continue
        if op == "env_ext":
            b = st.get("blob")
            sess.env_set_ext(st["id"], None if b is None else sess.u.blobs[b].bytes(), mode=st.get("mode"))
            results.append(None)
            continue
        if op == "env_chmod":
            sess.env_chmod(st["id"], st["mode"])
            results.append(None)
            continue
        if op == "env_content":
            algo, bid = st["algo"], st["blob"]
            p = sess.content_path(algo, bid)
            mode = st["mode"]
            if mode == "remove":
                if os.path.lexists(p):
                    sess.env_set_content(algo, bid)
            elif mode == "link":
                sess.env_set_content(algo, bid, link_to=st["to"])
            elif mode == "replace":
                sess.env_set_content(algo, bid, data=sess.u.blobs[st["with"]].bytes())
            elif mode == "swap":
                q = sess.content_path(st["other"]["algo"], st["other"]["blob"])
                if os.path.isfile(p) and os.path.isfile(q):
                    a, b = open(p, "rb").read(), open(q, "rb").read()
                    sess.env_set_content(algo, bid, data=b)
                    sess.env_set_content(st["other"]["algo"], st["other"]["blob"], data=a)
            else:
                if os.path.isfile(p) and not os.path.islink(p):
                    new = _damage(open(p, "rb").read(), st)
                    if new is not None:
                        if st.get("inplace"):
                            sess.env_damage_inplace(algo, bid, new, keep_mtime=bool(st.get("keep_mtime")))
                        else:
                            sess.env_set_content(algo, bid, data=new)
            results.append(None)
            continue
        if op == "env_bucket":
            p = sess.bucket_path(st["key"])
            mode = st["mode"]
            if mode == "remove":
                if os.path.exists(p):
                    sess.env_set_bucket(st["key"], None)
            elif mode == "save":
                slots[st["slot"]] = open(p, "rb").read() if os.path.isfile(p) else None
            elif mode == "restore":
                if st["slot"] in slots:
                    sess.env_set_bucket(st["key"], slots[st["slot"]])
            elif mode == "mkdir":
                # the bucket path is a directory (hostile on-disk state)
                if not os.path.exists(p):
                    os.makedirs(p)
            elif mode == "plant":
                # a record for a (foreign) key appended to this key's bucket by the reference writer
                e = dict(st["entry"])
                e["key"] = sess.u.keys.get(e["key"], e["key"])
                sri = e.pop("sri", None)
                e["integrity"] = sess.u.sri_conc(sri) if sri else None
                old = open(p, "rb").read() if os.path.exists(p) else b""
                sess.env_set_bucket(st["key"], old + R.frame_bytes(e, st.get("style", 0)))
            else:
                if os.path.isfile(p):
                    new = _damage(open(p, "rb").read(), st)
                    if new is not None:
                        sess.env_set_bucket(st["key"], new)
            results.append(None)
            continue
        # library calls
        if "h" in st:
            if st["h"] not in alias:
                results.append(None)
                continue
            st["h"] = alias[st["h"]]
            if st["h"] not in sess.handles:
                results.append(None)
                continue
        if "opts" in st:
            st["opts"] = _dec_opts(st["opts"])
        if "bytes_hex" in st:
            st["bytes"] = bytes.fromhex(st.pop("bytes_hex"))
        nh_before = sess.nh
        res = sess.step(st)
        if "as" in st and sess.nh > nh_before:
            alias[st["as"]] = "h%d" % sess.nh
        results.append(res)
        if on_step:
            on_step(i, st0, res)
        if res.get("e") in ("HANG", "DIED"):
            break
    return results
