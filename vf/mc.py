"""Model-checking runs of the specification family (TLC), with generated configurations."""
import os
import re

from .common import run_tlc, tlc_ok, tlc_violation, ToolError, WORK


def _set(xs):
    return "{" + ", ".join('"%s"' % x for x in xs) + "}"


def core_cfg(path, keys, datas, algos, times, metas, dests, fam, maxops, collide=False,
             exportat=0, invariants=(), properties=(), view="mview", multisri=False):
    txt = "CONSTANTS\n"
    txt += "  Keys = %s\n  Datas = %s\n  Algos = %s\n  Times = %s\n  Metas = %s\n  Dests = %s\n" % (
        _set(keys), _set(datas), _set(algos), _set(times), _set(metas), _set(dests))
    txt += "  Fam = %s\n  MaxOps = %d\n  Collide = %s\n  ExportAt = %d\n" % (
        _set(fam), maxops, "TRUE" if collide else "FALSE", exportat)
    txt += "  MultiSri = %s\n" % ("TRUE" if multisri else "FALSE")
    txt += "  LenOf <- MCLenOf\n  BucketOf <- MCBucketOf\n  ReflinkOK = FALSE\n"
    txt += "SPECIFICATION MCSpec\n"
    if view:
        txt += "VIEW %s\n" % view
    if invariants:
        txt += "INVARIANTS " + " ".join(invariants) + "\n"
    if properties:
        txt += "PROPERTIES " + " ".join(properties) + "\n"
    txt += "CHECK_DEADLOCK FALSE\n"
    os.makedirs(os.path.dirname(path), exist_ok=True)
    with open(path, "w") as f:
        f.write(txt)
    return path


def check_model(module, cfg, workdir, workers=8, timeout=900, extra=(), heap="8g"):
    """Run an exhaustive configuration; a violation in the MODEL is a defect of the
    specification/design, not of the code under test: reported as a tool error."""
    res = run_tlc(module, cfg, workdir, workers=workers, timeout=timeout, extra=extra, heap=heap)
    if not tlc_ok(res):
        v = tlc_violation(res)
        raise ToolError("model checking of %s/%s did not pass (%s):\n%s" % (
            module, os.path.basename(cfg), v or "error", res["out"][-2500:]))
    return {"module": module, "cfg": os.path.basename(cfg), "states": res["distinct"],
            "transitions": res["generated"], "wall": round(res["wall"], 1)}


def replays(out):
    """REPLAY lines printed by the Export invariant -> list of histories"""
    import json
    hs = []
    for m in re.finditer(r'<<"REPLAY", "((?:[^"\\]|\\.)*)">>', out):
        hs.append(json.loads(m.group(1).encode().decode("unicode_escape")))
    return hs


def fs_cfg(path, procs, ops, maxstarts, crash, faults, invariants, properties=(), fair=False):
    txt = "CONSTANTS\n  Procs = {%s}\n" % ", ".join("p%d" % (i + 1) for i in range(procs))
    txt += '  Keys = {"k1", "k2"}\n  Datas = {"d1", "d2"}\n  OpSet <- %s\n' % ops
    txt += "  IsEmptyData <- MCIsEmpty\n"
    txt += "  MaxStarts = %d\n  AllowCrash = %s\n  MaxFaults = %d\n  NoFile = NoFile\n" % (
        maxstarts, "TRUE" if crash else "FALSE", faults)
    txt += "SPECIFICATION %s\n" % ("FairSpec" if fair else "Spec")
    if invariants:
        txt += "INVARIANTS " + " ".join(invariants) + "\n"
    if properties:
        txt += "PROPERTIES " + " ".join(properties) + "\n"
    txt += "CHECK_DEADLOCK FALSE\n"
    os.makedirs(os.path.dirname(path), exist_ok=True)
    with open(path, "w") as f:
        f.write(txt)
    return path


def find_model_counterexample(module, cfg, workdir, workers=8, timeout=900):
    """Run a configuration that is EXPECTED to be able to fail; returns (violated property or
    None, TLC output)."""
    res = run_tlc(module, cfg, workdir, workers=workers, timeout=timeout, heap="8g")
    if tlc_ok(res):
        return None, res
    v = tlc_violation(res)
    if v is None:
        raise ToolError("model checking of %s/%s failed without a property violation:\n%s" % (
            module, os.path.basename(cfg), res["out"][-2000:]))
    return v, res


def bulk_cfg(path, procs, maxstarts, invariants, properties=()):
    txt = "CONSTANTS\n  Procs = {%s}\n" % ", ".join("p%d" % (i + 1) for i in range(procs))
    txt += '  Keys = {"k1", "k2"}\n  Datas = {"d1", "d2"}\n  OpSet <- MCOpsBulk\n  IsEmptyData <- MCIsEmptyB\n'
    txt += "  MaxStarts = %d\n  AllowCrash = FALSE\n  MaxFaults = 0\n  NoFile = NoFile\n" % maxstarts
    txt += "SPECIFICATION BSpec\n"
    if invariants:
        txt += "INVARIANTS " + " ".join(invariants) + "\n"
    if properties:
        txt += "PROPERTIES " + " ".join(properties) + "\n"
    txt += "CHECK_DEADLOCK FALSE\n"
    os.makedirs(os.path.dirname(path), exist_ok=True)
    with open(path, "w") as f:
        f.write(txt)
    return path
