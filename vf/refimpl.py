"""Independent reference implementation of the cacache on-disk format.

Written from /verif/spec (Layout / IndexFormat), using only hashlib, json, os.
Nothing here calls the library.  It provides
  - the deterministic data generator shared with the Rust driver,
  - digests and paths (index-v5 / content-v2),
  - the bucket lexer/parser alpha (bytes -> lines / tokens),
  - the projection of a cache directory to the abstract state of Cacache.tla,
  - a writer that produces caches without the library.
"""
import base64
import hashlib
import json
import os
import struct

ALGOS = ["sha512", "sha384", "sha256", "sha1", "xxh3"]      # ssri order, strongest first
HASHLIB = {"sha512": hashlib.sha512, "sha384": hashlib.sha384,
           "sha256": hashlib.sha256, "sha1": hashlib.sha1}


def gen_bytes(seed, length):
    """Same stream as cdrv's gen_bytes: sha256(le64(seed) || le64(i)) blocks."""
    out = bytearray()
    i = 0
    while len(out) < length:
        out += hashlib.sha256(struct.pack("<QQ", seed, i)).digest()
        i += 1
    return bytes(out[:length])


def blob_id(data):
    """the abstract identifier of a byte string (identity by value)"""
    return "empty" if len(data) == 0 else "b" + hashlib.sha256(data).hexdigest()[:10]


def digest_hex(algo, data):
    return HASHLIB[algo](data).hexdigest()


def sri_string(algo, hexdigest):
    return "%s-%s" % (algo, base64.b64encode(bytes.fromhex(hexdigest)).decode())


def parse_sri(s):
    """'algo-b64 algo-b64' -> list of (algo, hex) in ssri's sorted order."""
    out = []
    for part in s.split():
        algo, _, b64 = part.partition("-")
        try:
            hx = base64.b64decode(b64, validate=True).hex()
        except Exception:
            hx = "!" + b64
        out.append((algo, hx, b64))
    # ssri orders hashes by algorithm only (a stable sort): several digests of one algorithm keep
    # the order they were written in
    out.sort(key=lambda t: ALGOS.index(t[0]) if t[0] in ALGOS else 99)
    return [(a, h) for a, h, _ in out]


def split22(hx):
    return [hx[0:2], hx[2:4], hx[4:]]


def bucket_relpath(key):
    hx = hashlib.sha1(key.encode("utf-8")).hexdigest()
    return os.path.join("index-v5", *split22(hx))


def content_relpath(algo, hexdigest):
    return os.path.join("content-v2", algo, *split22(hexdigest))


# --------------------------------------------------------------------------- parser

def record_json(entry, style=0):
    """The text this reference writes for an index record.  style 0 is the canonical compact
    six-field form; the other styles are equally conforming spellings a foreign writer may
    produce (spaces, escaped non-ASCII, another field order, an extra field, raw_metadata left
    out when it is null)."""
    obj = [("key", entry["key"]), ("integrity", entry["integrity"]), ("time", entry["time"]),
           ("size", entry["size"]), ("metadata", entry["metadata"]), ("raw_metadata", entry["raw_metadata"])]
    if style == 0:
        return json.dumps(dict(obj), separators=(",", ":"), ensure_ascii=False)
    if style == 1:
        return json.dumps(dict(obj), separators=(", ", ": "), ensure_ascii=True)
    if style == 2:
        return json.dumps(dict(reversed(obj)), separators=(",", ":"), ensure_ascii=False)
    if style == 3:
        return json.dumps(dict(obj + [("x-foreign", {"a": [1, 2]})]), separators=(",", ":"), ensure_ascii=False)
    if style == 4 and entry["raw_metadata"] is None:
        return json.dumps(dict(obj[:-1]), separators=(",", ":"), ensure_ascii=True)
    return json.dumps(dict(obj), separators=(",", ":"), ensure_ascii=False)


def frame_bytes(entry, style=0):
    body = record_json(entry, style).encode("utf-8")
    return b"\n" + hashlib.sha256(body).hexdigest().encode() + b"\t" + body


def _valid_entry(obj):
    if not isinstance(obj, dict):
        return None
    if not isinstance(obj.get("key"), str):
        return None
    t = obj.get("time")
    sz = obj.get("size")
    if not (isinstance(t, int) and not isinstance(t, bool) and 0 <= t < 2 ** 128):
        return None
    if not (isinstance(sz, int) and not isinstance(sz, bool) and 0 <= sz < 2 ** 64):
        return None
    if "metadata" not in obj:
        return None
    integ = obj.get("integrity")
    if not (integ is None or isinstance(integ, str)):
        return None
    raw = obj.get("raw_metadata")
    if raw is not None:
        if not (isinstance(raw, list) and all(isinstance(x, int) and not isinstance(x, bool)
                                              and 0 <= x <= 255 for x in raw)):
            return None
        raw = bytes(raw)
    return {"key": obj["key"], "integrity": integ, "time": t, "size": sz,
            "metadata": obj["metadata"], "raw_metadata": raw}


def _depth(v):
    best, stack = 0, [(v, 0)]
    while stack:
        x, d = stack.pop()
        if isinstance(x, (list, dict)):
            d += 1
            best = max(best, d)
            for y in (x.values() if isinstance(x, dict) else x):
                stack.append((y, d))
    return best


def parse_line(raw_line, terminated=True):
    """One line (without its newline) -> ('rec', entry, body_text) | ('empty'|'bad8'|'junk',)
    A carriage return is part of the line ending only in front of a newline (CRLF): on a last
    line that no newline terminates it is an ordinary byte of the line."""
    line = raw_line
    if terminated and line.endswith(b"\r"):
        line = line[:-1]
    try:
        text = line.decode("utf-8")
    except UnicodeDecodeError:
        return ("bad8",)
    if text == "":
        return ("empty",)
    fields = text.split("\t")
    if len(fields) != 2:
        return ("junk",)
    if hashlib.sha256(fields[1].encode("utf-8")).hexdigest() != fields[0]:
        return ("junk",)
    try:
        obj = json.loads(fields[1])
    except Exception:
        return ("junk",)
    e = _valid_entry(obj)
    if e is None:
        return ("junk",)
    if _depth(obj) > 127:
        return ("junk",)        # beyond the 128-level recursion limit of the readers' JSON parser
    return ("rec", e, fields[1])


def parse_bucket(data):
    """bytes of a bucket file -> list of parsed lines (see parse_line)."""
    parts = data.split(b"\n")
    return [parse_line(l, terminated=(i < len(parts) - 1)) for i, l in enumerate(parts)]


def effective(lines):
    return [l[1] for l in lines if l[0] == "rec"]


def lookup(lines, key):
    acc = None
    for e in effective(lines):
        if e["key"] == key:
            acc = e if e["integrity"] is not None else None
    return acc


def listing(lines):
    seen = set()
    out = []
    for e in reversed(effective(lines)):
        if e["key"] in seen:
            continue
        seen.add(e["key"])
        if e["integrity"] is not None:
            out.append(e)
    return out


# --------------------------------------------------------------------------- raw walk

_HEX = set("0123456789abcdef")


def _is_bucket_name(parts):
    """index-v5/<2 hex>/<2 hex>/<36 hex>: anything else under index-v5 is no key's bucket"""
    return (len(parts[1]) == 2 and len(parts[2]) == 2 and len(parts[3]) == 36
            and all(set(x) <= _HEX for x in parts[1:4]))


def walk_cache(root):
    """Raw inventory of a cache directory: everything that is there, unparsed."""
    inv = {"buckets": {}, "content": {}, "tmp": [], "other": [], "has_index": False,
           "has_content": False, "has_tmp": False}
    if not os.path.isdir(root):
        return inv
    for name in sorted(os.listdir(root)):
        p = os.path.join(root, name)
        if name == "index-v5" and os.path.isdir(p) and not os.path.islink(p):
            inv["has_index"] = True
            for dp, dns, fns in os.walk(p):
                for fn in fns:
                    fp = os.path.join(dp, fn)
                    rel = os.path.relpath(fp, root)
                    parts = rel.split(os.sep)
                    if len(parts) == 4 and not os.path.islink(fp) and _is_bucket_name(parts):
                        with open(fp, "rb") as f:
                            inv["buckets"][rel] = f.read()
                    else:
                        inv["other"].append(rel)
        elif name == "content-v2" and os.path.isdir(p) and not os.path.islink(p):
            inv["has_content"] = True
            for dp, dns, fns in os.walk(p):
                for fn in fns:
                    fp = os.path.join(dp, fn)
                    rel = os.path.relpath(fp, root)
                    parts = rel.split(os.sep)
                    if len(parts) != 5:
                        inv["other"].append(rel)
                        continue
                    if os.path.islink(fp):
                        inv["content"][rel] = ("link", os.readlink(fp))
                    else:
                        with open(fp, "rb") as f:
                            inv["content"][rel] = ("file", f.read())
        elif name == "tmp" and os.path.isdir(p) and not os.path.islink(p):
            inv["has_tmp"] = True
            for dp, dns, fns in os.walk(p):
                for fn in fns + [d for d in dns if os.path.islink(os.path.join(dp, d))]:
                    inv["tmp"].append(os.path.relpath(os.path.join(dp, fn), root))
        else:
            inv["other"].append(name)
    return inv


# --------------------------------------------------------------------------- writer

def write_content(root, algo, data, hexdigest=None):
    hx = hexdigest or digest_hex(algo, data)
    p = os.path.join(root, content_relpath(algo, hx))
    os.makedirs(os.path.dirname(p), exist_ok=True)
    with open(p, "wb") as f:
        f.write(data)
    return hx


def append_record(root, entry, bucket_key=None):
    """Append one index record the way the format says; bucket_key lets a record be planted
    in another key's bucket (what a SHA-1 collision would produce)."""
    p = os.path.join(root, bucket_relpath(bucket_key if bucket_key is not None else entry["key"]))
    os.makedirs(os.path.dirname(p), exist_ok=True)
    e = dict(entry)
    if isinstance(e.get("raw_metadata"), (bytes, bytearray)):
        e["raw_metadata"] = list(e["raw_metadata"])
    with open(p, "ab") as f:
        f.write(frame_bytes(e))
