"""System-call level runs under the lock-step tracer (build/sysched).

An FsRun owns a Session (cache directory, universe, API-level trace for warm-up and
continuation) and a sysched co-process.  Traced children are one-shot cdrv drivers.  After
every action on a held call all children are stopped at visible calls (or blocked in
invisible ones), so the directory projection taken then is a consistent global state."""
import json
import os
import subprocess
import urllib.parse

from . import refimpl as R
from .common import BUILD, ToolError, driver_path
from .session import LANES, Session

SYSCHED = os.path.join(BUILD, "sysched")

EIO, ENOSPC, EACCES, EMFILE, ENOENT, EEXIST = 5, 28, 13, 24, 2, 17
ERRNO_NAME = {5: "EIO", 28: "ENOSPC", 13: "EACCES", 24: "EMFILE"}


def _esc(s):
    return urllib.parse.quote(s, safe="/._-")


class Sched:
    def __init__(self, roots):
        args = [SYSCHED]
        for r in roots:
            args += ["-r", r]
        self.p = subprocess.Popen(args, stdin=subprocess.PIPE, stdout=subprocess.PIPE, text=True)

    def cmd(self, line):
        self.p.stdin.write(line + "\n")
        self.p.stdin.flush()
        out = self.p.stdout.readline()
        if not out:
            raise ToolError("sysched died on: " + line[:200])
        return json.loads(out)

    def spawn(self, i, outfile, argv):
        return self.cmd("spawn %d %s %s" % (i, _esc(outfile), " ".join(_esc(a) for a in argv)))

    def close(self):
        try:
            self.p.stdin.write("quit\n")
            self.p.stdin.flush()
            self.p.wait(timeout=10)
        except Exception:
            self.p.kill()


def call_class(root, extdir, call, extra_tmp=()):
    """abstract class of a visible call: which area it touches and how"""
    path = call.get("path2") or call.get("path") or ""
    p1 = call.get("path") or ""
    name = call["name"]

    def area(p):
        if p.startswith(extdir):
            return "ext"
        if any(p.startswith(x) for x in extra_tmp):
            return "tmp"          # <cache>/tmp relocated to another file system
        rel = os.path.relpath(p, root) if p.startswith(root) else p
        if rel == ".":
            return "root"
        top = rel.split(os.sep)[0]
        return {"tmp": "tmp", "index-v5": "index", "content-v2": "content"}.get(
            top, "root_other" if p.startswith(root) else "other")
    a = area(path.replace(" (deleted)", ""))
    a1 = area(p1.replace(" (deleted)", "")) if p1 else a
    depth = len(os.path.relpath(path.replace(" (deleted)", ""), root).split(os.sep)) if path.startswith(root) else 0
    isfile = (a == "index" and depth == 4) or (a == "content" and depth == 5) or (a == "tmp" and depth == 2) \
        or (a == "tmp" and any(path.startswith(x) and path != x for x in extra_tmp))
    rel = os.path.relpath(path.replace(" (deleted)", ""), root) if path.startswith(root) else ""
    rel1 = os.path.relpath(p1.replace(" (deleted)", ""), root) if p1.startswith(root) else ""
    return {"area": a, "area1": a1, "file": isfile, "name": name, "mut": call.get("mut", 0), "rel": rel,
            "rel1": rel1}


class FsRun:
    """One run: warm-up (API level), traced phase (system-call level), continuation (API level)."""

    def __init__(self, workdir, sess=None):
        self.sess = sess or Session(workdir)
        self.workdir = workdir
        self.events = []          # FS-level trace events
        self.sched = None
        self.procs = {}           # i -> dict(flavour, reqs, out, sop, done)
        self.nsteps = 0

    # -------------------------------------------------------------- traced phase
    def begin(self, resolvable=True, extra_roots=()):
        s = self.sess
        self.extra_tmp = list(extra_roots)
        self.sched = Sched([s.root, s.extdir] + list(extra_roots))
        snap = s.project()
        s.prev = snap
        self.events.append({"ev": "begin", "snap": self._snap(snap), "resolvable": bool(resolvable)})

    def _snap(self, st):
        return {k: st[k] for k in ("buckets", "store", "ext", "tmp", "hasIndex")}

    def spawn(self, i, lane, reqs, sop):
        """start process i executing the driver requests reqs (one public call, possibly a
        handle sequence); sop is the contract-level op record"""
        fl = LANES[lane][0]
        out = os.path.join(self.workdir, "p%d.out" % i)
        for r in reqs:
            r.setdefault("cache", self.sess.root)
        self.procs[i] = {"flavour": fl, "lane": lane, "reqs": reqs, "out": out, "sop": sop, "res": None}
        r = self.sched.spawn(i, out, [driver_path(fl), "ops", json.dumps(reqs)])
        self.events.append({"ev": "spawn", "p": i, "op": sop, "lane": lane})
        self._note(i, r, None)
        return r

    def _note(self, i, r, action):
        """record what an action did, with the directory projection after it"""
        s = self.sess
        if not hasattr(self, "last_at"):
            self.last_at = {}
        self.last_at[i] = r.get("at")
        snap = s.project()
        s.prev = snap
        if r.get("done"):
            call = r["done"]["call"]
            ev = {"ev": "sys", "p": i, "ret": r["done"]["ret"], "faulted": bool(r["done"].get("faulted")),
                  "action": action or "step", "count": call.get("count", -1), "flags": call.get("flags", 0)}
            ev.update(call_class(s.root, s.extdir, call, getattr(self, "extra_tmp", ())))
            ev["tmpfull"] = self._tmpfull(i, ev, call)
            ev["snap"] = self._snap(snap)
            if snap["other"]:
                ev["other"] = snap["other"]
            self.events.append(ev)
            self.nsteps += 1
        for o in r.get("outside", []):
            if o["path"] in [pr["out"] for pr in self.procs.values()]:
                continue      # the traced driver's own response file
            self.events.append({"ev": "outside", "p": o["p"], "name": o["name"], "path": o["path"],
                                "path2": o.get("path2", ""), "flags": o.get("flags", 0)})
        if r.get("hang"):
            self.events.append({"ev": "hang", "p": i})
        if r.get("exited") is not None and self.procs[i]["res"] is None:
            self.procs[i]["res"] = self._result(i, r["exited"])
            self.events.append({"ev": "result", "p": i, "res": self.procs[i]["res"], "exit": r["exited"]})

    def _tmpfull(self, i, ev, call):
        """fullness of process i's temp file now: -1 none, 0 empty, 1 partial, 2 the complete data"""
        pr = self.procs[i]
        if ev["area"] == "tmp" and ev["file"] and ev["name"] in ("openat", "open", "creat", "openat2") \
                and ev["mut"] and ev["ret"] >= 0:
            pr["tmp_path"] = call["path"]
        tp = pr.get("tmp_path")
        if not tp:
            return -1
        try:
            with open(tp, "rb") as f:
                data = f.read()
        except OSError:
            return -1
        if not data:
            want = self.sess.u.blobs.get(pr["sop"].get("data", ""), None)
            return 2 if (want is not None and want.len == 0) else 0
        want = self.sess.u.blobs.get(pr["sop"].get("data", ""), None)
        if want is not None and len(data) == want.len and data == want.bytes():
            return 2
        return 1

    def _result(self, i, code):
        """abstract result of process i's last request (what the public call returned)"""
        pr = self.procs[i]
        try:
            lines = [json.loads(l) for l in open(pr["out"]).read().splitlines() if l.strip()]
        except Exception:
            lines = []
        complete = len(lines) == len(pr["reqs"]) or (lines and not lines[-1].get("ok"))
        if code != 0 or not complete:
            return {"ok": False, "e": "DIED", "code": code}
        return lines

    def at(self, r):
        return r.get("at")

    emulate_clone = False

    def step(self, i):
        # FICLONE is unsupported on this file system; with emulate_clone the tracer performs it
        at = (self.last_at.get(i) or {}) if hasattr(self, "last_at") else {}
        if self.emulate_clone and at.get("name") == "ioctl" and at.get("flags") == 0x40049409:
            r = self.sched.cmd("emuclone %d" % i)
            self._note(i, r, "emuclone")
        else:
            r = self.sched.cmd("step %d" % i)
            self._note(i, r, "step")
        return r

    def fault(self, i, errno):
        r = self.sched.cmd("fault %d %d" % (i, errno))
        self._note(i, r, "fault")
        return r

    def short(self, i, n):
        r = self.sched.cmd("short %d %d" % (i, n))
        self._note(i, r, "short")
        return r

    def run_free(self, i):
        r = self.sched.cmd("run %d" % i)
        self._note(i, r, "run")
        return r

    def kill(self):
        self.sched.cmd("kill")
        snap = self.sess.project()
        self.sess.prev = snap
        self.events.append({"ev": "crash", "torn": [], "snap": self._snap(snap)})

    def torn(self, i, n):
        r = self.sched.cmd("torn %d %d" % (i, n))
        snap = self.sess.project()
        self.sess.prev = snap
        t = r.get("torn") or {}
        call = t.get("call") or {}
        ev = {"ev": "crash", "torn": [{"p": i, "n": n, "ret": t.get("ret", -1)}], "snap": self._snap(snap)}
        if call:
            ev["torn"][0].update(call_class(self.sess.root, self.sess.extdir, call))
        self.events.append(ev)

    def end(self):
        if self.sched:
            self.sched.close()
            self.sched = None
        snap = self.sess.project()
        self.sess.prev = snap
        # temp files left behind are excused when the removal itself was made to fail, or a
        # process never finished
        tmpx = False
        for e in reversed(self.events):
            if e["ev"] == "begin":
                break
            if e["ev"] == "hang":
                tmpx = True
            # the async writers hand the temp file to a background task that may still hold it when
            # the caller has its answer; a one-shot process then exits under it ("once its
            # background work has finished" is the property's proviso): sync calls only
            if e["ev"] == "spawn" and e.get("lane") in ("Aa", "Ta"):
                tmpx = True
            if e["ev"] == "sys" and (e.get("faulted") or e.get("action") in ("short", "torn")) \
                    and (str(e.get("name", "")).startswith(("unlink", "rmdir")) or e.get("area") == "tmp"):
                tmpx = True
            if e["ev"] == "result" and isinstance(e.get("res"), dict) and e["res"].get("e") in ("DIED", "HANG", "PANIC"):
                tmpx = True
        self.events.append({"ev": "end", "snap": self._snap(snap), "tmpx": tmpx})
        # the API-level ghost adopts the state the traced phase left behind (its legitimacy is
        # decided by the FS-level trace specification)
        ad = {"ev": "adopt"}
        ad.update(self._snap(snap))
        self.sess.trace.append(ad)

    def run_to_exit(self, i, r):
        """step process i until it exits; returns list of replies"""
        out = []
        guard = 0
        while r.get("exited") is None and not r.get("hang") and r.get("at"):
            r = self.step(i)
            out.append(r)
            guard += 1
            if guard > 5000:
                raise ToolError("process %d does not finish" % i)
        return out


# ------------------------------------------------------------------ request builders

def reqs_for(sess, st):
    """driver requests (one-shot mode) + contract-level op for an abstract step"""
    u = sess.u
    op = st["op"]
    lane = st.get("lane", "S")
    is_sync = LANES[lane][1]
    sfx = "_sync" if is_sync else ""
    if op == "write":
        blob = u.blobs[st["data"]]
        algo = st.get("algo", "sha256")
        keyed = "key" in st
        how = st.get("how", "oneshot")
        sop = {"op": "write", "data": st["data"], "algo": algo}
        if keyed:
            sop["key"] = st["key"]
        if how == "oneshot":
            name = ("write" if keyed else "write_hash") + sfx + "_with_algo"
            if not is_sync:
                name = ("write" if keyed else "write_hash") + "_with_algo"
            r = {"op": name, "algo": algo, "data": blob.spec}
            if keyed:
                r["key"] = u.keys[st["key"]]
            return [r], sop
        # streamed: open + chunks + commit
        o = {"algo": algo}
        if st.get("size") is not None:
            o["size"] = st["size"]
        if "meta" in st:
            o["meta"] = sess._opts_conc({"meta": st["meta"]})["meta"]
            sop["meta"] = u.meta_id(st["meta"])
        r0 = {"op": "open_writer", "sync": is_sync, "via": "opts", "opts": o}
        if keyed:
            r0["key"] = u.keys[st["key"]]
        reqs = [r0]
        for (lo, hi) in st.get("chunks") or [(0, blob.len)]:
            spec = {"gen": list(blob.spec["gen"]) + [lo, hi]} if "gen" in blob.spec else {"hex": blob.bytes()[lo:hi].hex()}
            reqs.append({"op": "w_write", "h": 1, "data": spec})
        reqs.append({"op": "w_commit", "h": 1})
        sop["streamed"] = True
        sop["declared"] = st.get("size") is not None
        if st.get("size") is not None and st["size"] != blob.len:
            sop["reject"] = True
        return reqs, sop
    if op == "read":
        sop = {"op": "read"}
        if "key" in st:
            sop["key"] = st["key"]
            return [{"op": "read" + sfx, "key": u.keys[st["key"]]}], sop
        sop["sri"] = u.sri_sorted(st["sri"])
        return [{"op": "read_hash" + sfx, "sri": u.sri_conc(st["sri"])}], sop
    if op == "metadata":
        return [{"op": "metadata" + sfx, "key": u.keys[st["key"]]}], {"op": "metadata", "key": st["key"]}
    if op == "exists":
        return ([{"op": "exists" + sfx, "sri": u.sri_conc(st["sri"])}],
                {"op": "exists", "sri": u.sri_sorted(st["sri"])})
    if op == "list":
        return [{"op": "list_sync"}], {"op": "list"}
    if op == "remove":
        return [{"op": "remove" + sfx, "key": u.keys[st["key"]]}], {"op": "remove", "key": st["key"]}
    if op == "remove_hash":
        return ([{"op": "remove_hash" + sfx, "sri": u.sri_conc(st["sri"])}],
                {"op": "remove_hash", "sri": u.sri_sorted(st["sri"])})
    if op == "remove_fully":
        return [{"op": "remove_fully" + sfx, "key": u.keys[st["key"]]}], {"op": "remove_fully", "key": st["key"]}
    if op == "clear":
        return [{"op": "clear" + sfx}], {"op": "clear"}
    if op == "extract":
        keyed = "key" in st
        sn, an = Session.EXTRACT[(st["kind"], keyed, st["checked"])]
        name = sn if (is_sync or an is None) else an
        r = {"op": name, "to": sess.ext_path(st["to"])}
        sop = {"op": "extract", "kind": st["kind"], "checked": st["checked"], "to": st["to"]}
        if keyed:
            r["key"] = u.keys[st["key"]]
            sop["key"] = st["key"]
        else:
            r["sri"] = u.sri_conc(st["sri"])
            sop["sri"] = u.sri_sorted(st["sri"])
        return [r], sop
    if op == "index_insert":
        o = st.get("opts", {})
        return ([{"op": "index_insert" if is_sync else "index_insert_async", "key": u.keys[st["key"]],
                  "opts": sess._opts_conc(o)}],
                {"op": "index_insert", "key": st["key"], "opts": sess._opts_abs(o)})
    if op == "link_to":
        keyed = "key" in st
        r = {"op": ("link_to" if keyed else "link_to_hash") + sfx, "target": sess.ext_path(st["target"])}
        sop = {"op": "link_to", "target": st["target"]}
        if keyed:
            r["key"] = u.keys[st["key"]]
            sop["key"] = st["key"]
        return [r], sop
    raise ToolError("no one-shot request builder for " + op)


def abs_result(sess, sop, lines):
    """abstract result of a finished one-shot process from its response lines"""
    if isinstance(lines, dict):
        return lines
    last = lines[-1]
    u = sess.u
    # a failing earlier request of a handle sequence decides
    for l in lines[:-1]:
        if not l.get("ok"):
            return sess._err_abs(l)
    if not last.get("ok"):
        return sess._err_abs(last)
    v = last["val"]
    op = sop["op"]
    if op in ("write", "index_insert", "link_to"):
        if op == "write" and sop.get("algo") == "xxh3":
            u.xxh3_hex(sop["data"])
        return {"ok": True, "v": u.sri_abs(v) if v != "sha1-deadbeef" else [{"a": "sha1", "d": "deadbeef"}]}
    if op == "read":
        return {"ok": True, "v": u.blob_id_of_summary(v)}
    if op == "metadata":
        return {"ok": True, "v": [] if v is None else [u.entry_abs(v)]}
    if op == "exists":
        return {"ok": True, "v": bool(v)}
    if op == "list":
        ents = sorted((u.entry_abs(i["ok"]) for i in v if "ok" in i), key=lambda e: json.dumps(e, sort_keys=True))
        return {"ok": True, "v": ents, "errs": sum(1 for i in v if "err" in i)}
    if op == "extract":
        return {"ok": True, "v": "unit" if v is None else int(v)}
    return {"ok": True, "v": "unit"}
