"""Seeded generators of programs (universe + abstract steps)."""
import hashlib
import json
import random

from . import refimpl as R
from .session import ALL_LANES

HOSTILE_KEYS = [
    "", "a", "A", "key", "Key", "../x", "../../etc/passwd", "/etc/passwd", "a/b/c", "a\\b",
    "tab\there", "new\nline", "cr\rlf\r\n", "quote\"s'", "nul\u0000byte", "ctl\u0001\u001f\u007f",
    "café", "café", "é", "é", "☃ snowman", "\U0001F600",
    "k" * 300, "long-" + "x" * 4000, " leading", "trailing ", ".", "..", "index-v5", "content-v2/sha256",
    "{\"key\":\"json\"}", "\\u0000", "%00", "a}", "x]", "[{", "}]\"",  "a​b", "﻿bom", "CON", "nul",
]

ALGOS = ["sha256", "sha512", "sha1", "sha384", "xxh3"]


def rand_key(rng, i):
    r = rng.random()
    if r < 0.5:
        return "%s#%d" % (rng.choice(HOSTILE_KEYS), i)      # made unique by the suffix
    if r < 0.8:
        n = rng.randrange(1, 12)
        return "".join(chr(rng.choice([rng.randrange(0x20, 0x7f), rng.randrange(0xa0, 0x2ff),
                                       rng.randrange(0x4e00, 0x4e80), rng.randrange(0x1f600, 0x1f640)]))
                       for _ in range(n)) + "#%d" % i
    return "key-%d" % i


def rand_json(rng, depth=0):
    r = rng.random()
    if depth > 2 or r < 0.45:
        c = rng.randrange(9)
        if c == 0:
            return None
        if c == 1:
            return rng.random() < 0.5
        if c == 2:
            return rng.choice([0, 1, -1, 2 ** 31, -2 ** 31, 2 ** 53, 2 ** 63 - 1, -2 ** 63, 2 ** 64 - 1,
                               rng.randrange(-10 ** 9, 10 ** 9)])
        if c == 3:
            # short decimals (<= 6 significant digits), which JSON text carries exactly
            return float("%d.%d" % (rng.randrange(-999, 1000), rng.randrange(0, 1000)))
        if c == 4:
            return rng.choice(["", "x", "tab\t", "nl\n", "q\"", "\u0000", "\u001f", "café",
                               "\U0001F600", "\\", "/", " "])
        if depth == 0 and rng.random() < 0.08:
            # a value that makes the record line longer than a reader's buffer (8 KiB / 64 KiB)
            return "L" * rng.choice([9000, 70000]) + "é"
        return "".join(chr(rng.randrange(0x20, 0x250)) for _ in range(rng.randrange(0, 10)))
    if r < 0.72:
        return [rand_json(rng, depth + 1) for _ in range(rng.randrange(0, 4))]
    return {("f%d" % i if rng.random() < 0.7 else rng.choice(["", "k\t", "é", "key"]) + str(i)):
            rand_json(rng, depth + 1) for i in range(rng.randrange(0, 4))}


def rand_time(rng):
    return rng.choice([0, 1, 2 ** 31, 2 ** 53, 2 ** 64, 2 ** 128 - 1, rng.randrange(0, 2 ** 128),
                       rng.randrange(10 ** 12, 2 * 10 ** 12)])


def key_id(s):
    return "k" + hashlib.sha1(s.encode("utf-8")).hexdigest()[:8]


def add_key(prog, s):
    kid = key_id(s)
    prog["keys"][kid] = s
    return kid


def add_blob(prog, data=None, gen=None):
    """identifiers are derived from the value, so they mean the same bytes in every program"""
    if gen is not None:
        data = R.gen_bytes(gen[0], gen[1])
        bid = R.blob_id(data)
        prog["blobs"][bid] = {"gen": list(gen)}
    else:
        bid = R.blob_id(data)
        if bid != "empty":
            prog["blobs"][bid] = {"hex": data.hex()}
    return bid


def small_universe(rng, nkeys=6, ndata=5, hostile=True, sizes=None):
    prog = {"keys": {}, "blobs": {}, "steps": []}
    for i in range(nkeys):
        add_key(prog, rand_key(rng, i) if hostile else "key-%d-%d" % (i, rng.randrange(10 ** 6)))
    if hostile and nkeys >= 3 and rng.random() < 0.5:
        # ... and keys whose buckets are neighbours: same index sub-directory (first 16 bits of the
        # SHA-1 equal) or same first-level directory (8 bits) - what is done to one key's bucket
        # must not reach the files next to it
        for ks in sibling_keys(rng, 2, rng.choice([16, 16, 8])):
            add_key(prog, ks)
    ids = []
    for i in range(ndata):
        if sizes:
            n = sizes[i % len(sizes)]
        else:
            n = rng.choice([0, 1, 2, 5, 17, 100, 1000, 5000])
        if n <= 2048:
            ids.append(add_blob(prog, bytes(rng.randrange(256) for _ in range(n))))
        else:
            ids.append(add_blob(prog, gen=(rng.randrange(1 << 40), n)))
    prog["data_ids"] = sorted(set(ids))
    return prog


def deep_json(rng, depth=None):
    """a scalar wrapped `depth` times in one-element arrays or {"a": ..} objects: around the JSON
    reader's recursion limit (the record itself is one level; 128 levels are the limit)"""
    depth = depth or rng.choice([100, 125, 126, 127, 128, 129, 200])
    v = rng.choice([1, "leaf", None, True, "]", "}}"])
    obj = rng.random() < 0.5
    if rng.random() < 0.35:
        # a string with unbalanced brackets IN FRONT of the nested part (text-level depth estimates
        # must not be fooled by it); the wrapper object is one of the levels
        depth -= 1
    else:
        obj = None if False else obj
        for _ in range(depth):
            v = {"a": v} if obj else [v]
        return v
    for _ in range(depth):
        v = {"a": v} if obj else [v]
    return {"note": rng.choice(["see fig. 3]", "}", "]]}", "a]b}c"]), "tree": v}


def deep_boundary_program(rng, lanes=("S", "Aa", "Ta")):
    """systematic: metadata nested exactly at, one below and one above the JSON reader's limit x
    shape (arrays, objects, behind a string with unbalanced brackets) x keys with and without a
    lone bracket, each written OVER an existing entry of its key: the write either fails and the
    old entry stays, or succeeds and the new entry is found - never success with the old entry"""
    prog = {"keys": {}, "blobs": {}, "steps": []}
    d_old = add_blob(prog, b"old %d" % rng.randrange(10 ** 6))
    d_new = add_blob(prog, b"new %d" % rng.randrange(10 ** 6))
    c = 0
    for total in (126, 127, 128):
        for shape in ("arr", "obj", "note"):
            for kname in ("plain-%d", "k}-%d", "x]-%d"):
                lane = rng.choice(lanes)
                k = add_key(prog, kname % c)
                v = 1
                inner = total - (1 if shape == "note" else 0)
                for _ in range(inner):
                    v = {"a": v} if shape == "obj" else [v]
                if shape == "note":
                    v = {"note": rng.choice(["see fig. 3]", "}", "a]b}c"]), "tree": v}
                prog["steps"].append({"op": "write", "lane": rng.choice(lanes), "key": k, "data": d_old, "algo": "sha256"})
                w = "dw%d" % c
                c += 1
                prog["steps"] += [{"op": "open_writer", "lane": lane, "key": k, "opts": {"algo": "sha256", "meta": v},
                                   "as": w, "plan": d_new, "via": "opts"},
                                  {"op": "w_write", "lane": lane, "h": w, "data": d_new, "all": True},
                                  {"op": "w_commit", "lane": lane, "h": w},
                                  {"op": "metadata", "lane": rng.choice(lanes), "key": k},
                                  {"op": "read", "lane": rng.choice(lanes), "key": k}]
    prog["steps"].append({"op": "list", "lane": "S"})
    return prog


def rand_opts(rng, full=False):
    o = {}
    if full and rng.random() < 0.05:
        o["meta"] = {"big": "B" * rng.choice([8200, 66000]), "tail": [1, 2, 3]}
        return o
    if full and rng.random() < 0.06:
        o["meta"] = deep_json(rng)
        return o
    if rng.random() < (0.7 if full else 0.3):
        o["time"] = str(rand_time(rng))
    if rng.random() < (0.7 if full else 0.3):
        o["meta"] = rand_json(rng)
    if rng.random() < (0.5 if full else 0.2):
        o["raw"] = {"hex": bytes(rng.randrange(256) for _ in range(rng.randrange(0, 40))).hex()}
    return o


def observe_all(prog, rng, lanes, keys, addrs=(), with_list=True, read=True):
    """lookups of every key (and address) + listing: what the properties are stated about"""
    for k in keys:
        prog["steps"].append({"op": "metadata", "lane": rng.choice(lanes), "key": k,
                              "variant": rng.choice(["", "index_find"])})
        if read:
            prog["steps"].append({"op": "read", "lane": rng.choice(lanes), "key": k})
    for (a, d) in addrs:
        prog["steps"].append({"op": "exists", "lane": rng.choice(lanes), "sri": [{"a": a, "d": d}]})
        if read:
            prog["steps"].append({"op": "read", "lane": rng.choice(lanes), "sri": [{"a": a, "d": d}]})
    if with_list:
        prog["steps"].append({"op": "list", "lane": rng.choice(lanes),
                              "variant": rng.choice(["", "index_ls"])})


def sibling_keys(rng, n=2, bits=16):
    """n distinct keys whose SHA-1 digests share their first `bits` bits: their buckets are
    different files in the SAME index sub-directory (8 bits: same first-level directory)"""
    seen = {}
    base = "sib-%d-" % rng.randrange(10 ** 6)
    i = 0
    while True:
        ks = base + str(i)
        i += 1
        pre = hashlib.sha1(ks.encode()).hexdigest()[:bits // 4]
        seen.setdefault(pre, []).append(ks)
        if len(seen[pre]) >= n:
            return seen[pre]


def history_program(rng, length, lanes=ALL_LANES, nkeys=6, ndata=5, removal_weight=0.2,
                    bulk=False, observe_every=1, full_opts=False, algos=("sha256",), plant=False,
                    stray=False, garbage=False, rootlink=False):
    """Random history of keyed writes (several entry points), raw inserts, removals of all kinds,
    with lookups of every key and a listing after every mutating step."""
    prog = small_universe(rng, nkeys, ndata)
    keys = list(prog["keys"])
    datas = list(prog["data_ids"])
    addrs = set()
    for n in range(length):
        lane = rng.choice(lanes)
        k = rng.choice(keys)
        r = rng.random()
        if r < 0.40:
            d = rng.choice(datas)
            a = rng.choice(algos)
            how = rng.random()
            if how < 0.5:
                prog["steps"].append({"op": "write", "lane": lane, "key": k, "data": d, "algo": a,
                                      "variant": "plain" if (a == "sha256" and rng.random() < 0.5) else "algo"})
            else:
                o = rand_opts(rng, full_opts)
                o["algo"] = a
                if full_opts and a in ("sha256", "sha512") and rng.random() < 0.25:
                    # a declared integrity - the computed one, or that plus a hash of a weaker
                    # algorithm: the entry carries the DECLARED value, verbatim
                    o["sri"] = [{"a": a, "d": d}] + ([{"a": "sha1", "d": d}] if rng.random() < 0.6 else [])
                w = "w%d" % n
                prog["steps"].append({"op": "open_writer", "lane": lane, "key": k, "opts": o, "as": w, "plan": d})
                prog["steps"].append({"op": "w_write", "lane": lane, "h": w, "data": d})
                prog["steps"].append({"op": "w_commit", "lane": lane, "h": w})
            addrs.add((a, d))
        elif r < 0.50:
            d = rng.choice(datas)
            a = rng.choice(algos)
            o = rand_opts(rng, full_opts)
            o["sri"] = [{"a": a, "d": d}]
            if rng.random() < 0.5:
                # (raw inserts store any declared size verbatim: the whole 64-bit range)
                o["size"] = rng.choice([rng.randrange(0, 10 ** 6), 0, 2 ** 31, 2 ** 32 + 1, 2 ** 53 + 1,
                                        2 ** 63 - 1, 2 ** 64 - 2, rng.randrange(2 ** 53, 2 ** 64)])
            prog["steps"].append({"op": "index_insert", "lane": lane, "key": k, "opts": o})
        elif r < 0.50 + removal_weight:
            rr = rng.random()
            if rr < 0.55:
                prog["steps"].append({"op": "remove", "lane": lane, "key": k,
                                      "variant": rng.choice(["plain", "opts", "opts", "index_delete"]),
                                      "resets": rng.choice([0, 0, 1, 2])})
            elif rr < 0.75 and addrs:
                a, d = rng.choice(sorted(addrs))
                prog["steps"].append({"op": "remove_hash", "lane": lane, "sri": [{"a": a, "d": d}]})
            elif rr < 0.92 and bulk:
                prog["steps"].append({"op": "remove_fully", "lane": lane, "key": k, "resets": rng.choice([0, 0, 1, 2])})
            elif bulk:
                prog["steps"].append({"op": "clear", "lane": lane})
            else:
                prog["steps"].append({"op": "remove", "lane": lane, "key": k})
        elif r >= 0.96 and rootlink:
            prog["steps"].append({"op": "env_raw", "action": "root_symlink_ext"})
            prog["steps"].append({"op": "env_ext", "id": "shared-%d" % n, "blob": rng.choice(datas)})
        elif r >= 0.93 and garbage:
            # a line that is no record (torn, foreign, not UTF-8, checksummed junk) ends up in the
            # key's bucket between two operations: later records must still be found
            if rng.random() < 0.35:
                # ... or a junk line that makes the bucket exactly a multiple of a buffer size long
                prog["steps"].append({"op": "env_bucket", "key": k, "mode": "pad_to",
                                      "multiple": rng.choice([4096, 8192, 65536])})
            else:
                prog["steps"].append({"op": "env_bucket", "key": k, "mode": "insert_line", "index": 10 ** 6,
                                      "bytes": rng.choice(GARBAGE_LINES).hex()})
        elif r >= 0.90 and stray:
            # a file that is no key's bucket appears inside the index tree (desktop metadata, an
            # NFS leftover, a note someone dropped there), next to or above this key's bucket
            prog["steps"].append({"op": "env_raw", "action": "stray", "key": k,
                                  "where": rng.choice(["top", "prefix", "leaf"]),
                                  "name": rng.choice([".DS_Store", "00README.txt", ".nfs000000000a1b2c3d", "Thumbs.db",
                                                      "zz-notes", "~", "0", "ff.bak"]),
                                  "bytes": [rng.randrange(256) for _ in range(rng.choice([0, 5, 300]))]})
        elif plant and (r < 0.78 or r >= 0.88):
            # a record of a foreign key planted in this key's bucket (what a SHA-1 collision
            # would produce), written by the reference writer
            fk = rng.choice(keys)
            d = rng.choice(datas)
            # (live or a removal marker: a foreign key's removal must not hide this key)
            prog["steps"].append({"op": "env_bucket", "key": k, "mode": "plant",
                                  "entry": {"key": fk, "sri": None if rng.random() < 0.4 else [{"a": "sha256", "d": d}],
                                            "time": rng.randrange(10 ** 12), "size": rng.choice([rng.randrange(100), 2 ** 53 + 1]),
                                            "metadata": None, "raw_metadata": None}})
        else:
            d = rng.choice(datas)
            prog["steps"].append({"op": "write", "lane": lane, "data": d, "algo": rng.choice(algos)})
            addrs.add((prog["steps"][-1]["algo"], d))
        if n % observe_every == 0:
            observe_all(prog, rng, lanes, keys, sorted(addrs), read=(rng.random() < 0.5))
    observe_all(prog, rng, lanes, keys, sorted(addrs))
    return prog


# ---------------------------------------------------------------------------------------
# writers: round trips (C02), declared size / integrity (C08), abandonment (C14)
# ---------------------------------------------------------------------------------------

MIB = 1024 * 1024
SIZE_CLASSES_SMALL = [0, 1, 2, 3, 7, 64, 255, 1000, 4096, 8191, 8192, 8193, 16384, 16385, 65536, 65537, 70000]
SIZE_CLASSES_BIG = [MIB - 1, MIB, MIB + 1, 2 * MIB, 2 * MIB + 1, 3 * MIB + 17]


def chunkings(rng, n, big=False):
    """list of (from, to) slices covering [0, n), several shapes"""
    shapes = []
    shapes.append([(0, n)])
    if 0 < n <= 40 and not big:
        shapes.append([(i, i + 1) for i in range(n)])
    if n >= 2:
        cuts, lo, step = [], 0, max(1, n // 2)
        while lo < n:                      # decreasing chunk sizes
            hi = min(n, lo + step)
            cuts.append((lo, hi))
            lo, step = hi, max(1, step // 2) if not big else max(n // 8, step // 2)
            if big and len(cuts) >= 5:
                cuts.append((lo, n)) if lo < n else None
                break
        shapes.append([c for c in cuts if c])
    # with empty chunks
    mid = n // 2
    shapes.append([(0, 0), (0, mid), (mid, mid), (mid, n), (n, n)])
    # increasing chunk sizes; a short header before a long body; a long body before a short trailer
    if n >= 3:
        cuts, lo, step = [], 0, (max(1, n // 64) if big else 1)
        while lo < n:
            hi = min(n, lo + step)
            cuts.append((lo, hi))
            lo, step = hi, step * (4 if big else 10)
        shapes.append(cuts)
        h = rng.choice([1, 7, 100, 4096])
        if h < n:
            shapes.append([(0, h), (h, n)])
            shapes.append([(0, n - h), (n - h, n)])
            if 3 * h < n:
                shapes.append([(0, h), (h, 2 * h), (2 * h, n - h), (n - h, n)])
    # random cuts
    k = rng.randrange(1, 4 if big else 7)
    pts = sorted({0, n} | {rng.randrange(0, n + 1) for _ in range(k)})
    shapes.append([(pts[i], pts[i + 1]) for i in range(len(pts) - 1)] or [(0, n)])
    return shapes


def _mk_data(prog, rng, n):
    if n <= 8192:
        return add_blob(prog, bytes(rng.randrange(256) for _ in range(n)))
    return add_blob(prog, gen=(rng.randrange(1 << 40), n))


def write_steps(rng, prog, lane, d, n, algo, key=None, how="oneshot", chunks=None, opts=None,
                alias="w", all_=True, explicit_algo=True, foreign_cwd=False):
    """steps that store blob d (length n) through one entry point"""
    st = []
    if how == "oneshot":
        s = {"op": "write", "lane": lane, "data": d, "algo": algo,
             "variant": "plain" if (algo == "sha256" and rng.random() < 0.5) else "algo"}
        if key:
            s["key"] = key
        st.append(s)
        return st
    o = dict(opts or {})
    if explicit_algo or algo != "sha256":
        o["algo"] = algo                    # (otherwise: the algorithm is left to its default)
    if rng.random() < 0.15:
        # option setters called twice: an earlier call with another value, then the real one
        dec = {}
        if "algo" in o:
            dec["algo"] = rng.choice([a for a in ALGOS if a != o["algo"]])
        if o.get("size") is not None:
            dec["size"] = o["size"] + rng.choice([1, 4096, 2 * MIB])
        if o.get("time") is not None:
            dec["time"] = "12345"
        if "meta" in o:
            dec["meta"] = {"decoy": True}
        if o.get("raw") is not None:
            dec["raw"] = {"hex": "00ff"}
        o["decoy"] = dec
    s = {"op": "open_writer", "lane": lane, "opts": o, "as": alias, "plan": d, "via": "opts"}
    if how == "create" and key and algo == "sha256":
        s["via"] = "create"
        s["opts"] = {}
    elif how == "create_with_algo" and key:
        s["via"] = "create_with_algo"
        s["algo"] = algo
        s["opts"] = {}
    if key:
        s["key"] = key
    st.append(s)
    flushy = rng.random() < 0.35            # flushes between chunks (and before the first one)
    if flushy and rng.random() < 0.3:
        st.append({"op": "w_flush", "lane": lane, "h": alias})
    for (lo, hi) in (chunks or [(0, n)]):
        w = {"op": "w_write", "lane": lane, "h": alias, "data": d, "from": lo, "to": hi, "all": all_}
        if hi - lo <= 4096 and rng.random() < 0.12:
            w["vectored"] = rng.choice([1, 2, 3])       # Write::write_vectored instead of write
        elif hi - lo > 0 and rng.random() < (0.08 if key else 0.2) and o.get("size") is None and not o.get("sri") and not key:
            # (async lanes only: a write future polled once and dropped.  By-address writers only:
            # with a key, the pinned tree records the ACKNOWLEDGED byte count as the entry's size
            # while the content holds the cancelled chunk too - cancellation is outside the
            # properties, so nothing is demanded about it beyond address = digest of the content)
            w["cancel"] = True
        elif hi - lo > 0 and rng.random() < 0.15:
            # io::copy into the writer from a source that trickles (socket-like short reads)
            # (at most a few thousand reads: a one-byte trickle of megabytes through the async
            # runtimes takes long enough to trip the watchdog, which would be a false alarm)
            w["copy_step"] = max(rng.choice([1, 100, 1000, 5000, 8192, 9000]), (hi - lo) // 2000 + 1)
        st.append(w)
        if rng.random() < 0.06:
            # the writer sits idle for hours while others use the cache (another writer is opened
            # and committed in the meantime)
            st.append({"op": "env_raw", "action": "age_all"})
            st.append({"op": "write", "lane": rng.choice(ALL_LANES), "data": d, "algo": "sha1"})
        if flushy and rng.random() < 0.5:
            st.append({"op": "w_flush", "lane": lane, "h": alias})
    if rng.random() < 0.2:
        st.append({"op": "w_flush", "lane": lane, "h": alias})
    if foreign_cwd:
        # the writer was opened through a RELATIVE cache path (where the session uses such paths)
        # and is committed after the process changed its working directory
        s["force_rel"] = True
        for w_ in st:
            w_.pop("cancel", None)      # (what such a writer stored is read back from THIS cache)
        st.append({"op": "chdir", "lane": lane, "to": "elsewhere"})
        st.append({"op": "w_commit", "lane": lane, "h": alias, "elsewhere": True})
        st.append({"op": "chdir", "lane": lane, "to": "base"})
        return st
    st.append({"op": "w_commit", "lane": lane, "h": alias})
    return st


def roundtrip_program(rng, ncases, lanes=ALL_LANES, big=False, algos=ALGOS):
    prog = {"keys": {}, "blobs": {}, "steps": []}
    for c in range(ncases):
        n = rng.choice(SIZE_CLASSES_BIG if big else SIZE_CLASSES_SMALL)
        d = _mk_data(prog, rng, n)
        algo = rng.choice(algos)
        lane = rng.choice(lanes)
        keyed = rng.random() < 0.7
        key = add_key(prog, rand_key(rng, c)) if keyed else None
        how = rng.choice(["oneshot", "opts", "opts", "create", "create_with_algo"])
        if not keyed and how in ("create", "create_with_algo"):
            how = "opts"
        opts = {}
        if how == "opts" and rng.random() < 0.5:
            opts["size"] = n                      # correctly declared size
        ch = rng.choice(chunkings(rng, n, big))
        prog["steps"] += write_steps(rng, prog, lane, d, n, algo, key, how, ch, opts, alias="w%d" % c,
                                     all_=(rng.random() < 0.85),
                                     foreign_cwd=(how != "oneshot" and not big and rng.random() < 0.12))
        # read back by key and by address through other entry points
        for _ in range(2):
            l2 = rng.choice(lanes)
            if key:
                prog["steps"].append({"op": "read", "lane": l2, "key": key})
            prog["steps"].append({"op": "read", "lane": rng.choice(lanes), "sri": [{"a": algo, "d": d}]})
        if key:
            prog["steps"].append({"op": "metadata", "lane": rng.choice(lanes), "key": key})
            if rng.random() < 0.3:
                rd = "r%d" % c
                prog["steps"].append({"op": "open_reader", "lane": lane, "key": key, "as": rd})
                prog["steps"].append({"op": "r_read", "lane": lane, "h": rd, "n": rng.choice([1, 7, 1024, 65536]),
                                      "all": True})
                prog["steps"].append({"op": "r_check", "lane": lane, "h": rd})
        prog["steps"].append({"op": "exists", "lane": rng.choice(lanes), "sri": [{"a": algo, "d": d}]})
    return prog


def big_chunk_program(rng, sizes=(2 * MIB + 1, 3 * MIB + 17), lanes=ALL_LANES):
    """systematic: data handed over as ONE buffer larger than any internal buffer of the runtimes
    (2 MiB is tokio's per-operation ceiling), through the one-shot call and through one write_all
    of a writer, in every lane; read back by key and by address"""
    prog = {"keys": {}, "blobs": {}, "steps": []}
    c = 0
    for lane in lanes:
        for n in sizes:
            for how in ("oneshot", "opts"):
                d = _mk_data(prog, rng, n)
                key = add_key(prog, rand_key(rng, c))
                opts = {"size": n} if (how == "opts" and rng.random() < 0.5) else {}
                prog["steps"] += write_steps(rng, prog, lane, d, n, "sha256", key, how, [(0, n)], opts, alias="bw%d" % c)
                prog["steps"].append({"op": "read", "lane": rng.choice(lanes), "key": key})
                prog["steps"].append({"op": "read", "lane": lane, "sri": [{"a": "sha256", "d": d}]})
                prog["steps"].append({"op": "remove_fully", "lane": "S", "key": key})
                c += 1
    return prog


def commit_program(rng, ncases, lanes=ALL_LANES, big=False, algos=("sha256", "sha512", "sha1")):
    """C08: declared size {less, equal, more} x declared integrity {none, right, wrong, other
    algorithm, multi containing the right one} x prior state of the key x chunking x keyed/hash"""
    prog = {"keys": {}, "blobs": {}, "steps": []}
    wrong = add_blob(prog, b"some other bytes %d" % rng.randrange(10 ** 6))
    for c in range(ncases):
        n = rng.choice([MIB - 1, MIB, MIB + 1] if big else [0, 1, 5, 100, 5000])
        d = _mk_data(prog, rng, n)
        algo = rng.choice(algos)
        # the algorithm left to its default while an integrity value is declared (of the default
        # or of ANOTHER algorithm: the declared value must not select the hash the writer computes)
        noalgo = rng.random() < 0.3
        if noalgo:
            algo = "sha256"
        other = rng.choice([a for a in ("sha256", "sha512", "sha1", "sha384") if a != algo])
        lane = rng.choice(lanes)
        keyed = rng.random() < 0.75
        key = add_key(prog, rand_key(rng, c)) if keyed else None
        prior = rng.choice(["absent", "present", "removed"])
        if key and prior != "absent":
            d0 = _mk_data(prog, rng, 9)
            prog["steps"].append({"op": "write", "lane": rng.choice(lanes), "key": key, "data": d0, "algo": "sha256"})
            if prior == "removed":
                prog["steps"].append({"op": "remove", "lane": rng.choice(lanes), "key": key})
        opts = {}
        sz = rng.choice(["none", "less", "equal", "equal", "more", "huge"])
        if sz == "less" and n > 0:
            opts["size"] = rng.choice([0, n - 1, max(0, n // 2)])
        elif sz == "equal":
            opts["size"] = n
        elif sz == "more":
            opts["size"] = n + rng.choice([1, 7, 5000])
        elif sz == "huge":
            # a declared size no allocation could satisfy: it is only ever compared at commit
            opts["size"] = rng.choice([2 ** 31, 2 ** 40, 2 ** 62, 2 ** 63 - 1, 2 ** 63, 2 ** 64 - 2, 2 ** 64 - 1])
        sk = rng.choice(["none", "none", "right", "wrong", "other", "multi_weaker", "multi_stronger", "multi_same"])
        if noalgo and rng.random() < 0.5:
            sk = "other"
        if sk == "right":
            opts["sri"] = [{"a": algo, "d": d}]
        elif sk == "wrong":
            opts["sri"] = [{"a": algo, "d": wrong}]
        elif sk == "other":
            opts["sri"] = [{"a": other, "d": d}]
        elif sk == "multi_weaker":
            # the right hash plus a hash of a weaker algorithm: the strongest algorithm of the
            # declared value is the writer's own, so the entry stays readable by key
            weaker = [a for a in ("sha1",) if ALGOS_RANK[a] > ALGOS_RANK[algo]]
            opts["sri"] = [{"a": algo, "d": d}] + ([{"a": weaker[0], "d": d}] if weaker else [])
        elif sk == "multi_same":
            # two digests of the SAME algorithm, one of them the data's (ssri orders them by their
            # text; the first names the file - the contract mirrors that, as for multi_stronger)
            opts["sri"] = [{"a": algo, "d": d}, {"a": algo, "d": wrong}]
        elif sk == "multi_stronger":
            # KNOWN FINDING (known_findings.json): the commit succeeds but the entry points at the
            # address of the stronger algorithm, where nothing was stored; the contract mirrors this
            stronger = [a for a in ("sha512",) if ALGOS_RANK[a] < ALGOS_RANK[algo]]
            opts["sri"] = ([{"a": stronger[0], "d": d}] if stronger else []) + [{"a": algo, "d": d}]
        if rng.random() < 0.3:
            opts.update(rand_opts(rng))
        if key:
            prog["steps"].append({"op": "metadata", "lane": rng.choice(lanes), "key": key})
        ch = rng.choice(chunkings(rng, n, big))
        if isinstance(opts.get("size"), int) and 0 < opts["size"] < n and rng.random() < 0.5:
            # one chunk ends EXACTLY at the declared size (the preallocated file / map is full to
            # the byte) and more data follows in further calls
            s_ = opts["size"]
            a_, b_ = rng.randrange(0, s_ + 1), rng.randrange(s_ + 1, n + 1)
            ch = [c_ for c_ in [(0, a_), (a_, s_), (s_, b_), (b_, n)] if c_[0] < c_[1]]
        ws_ = write_steps(rng, prog, lane, d, n, algo, key, "opts", ch, opts, alias="w%d" % c,
                          explicit_algo=not noalgo)
        if sk == "right" and not big and rng.random() < 0.5:
            # the declared content is ALREADY stored when the writer is opened, and is removed (by
            # address, or with everything else) before the writer commits: the commit stores it
            # again, or fails - it does not report an entry whose content is gone
            prog["steps"].append({"op": "write", "lane": rng.choice(lanes), "data": d, "algo": algo})
            ws_.insert(rng.choice([1, len(ws_) - 1]),
                       rng.choice([{"op": "remove_hash", "lane": rng.choice(lanes), "sri": [{"a": algo, "d": d}]},
                                   {"op": "remove_hash", "lane": rng.choice(lanes), "sri": [{"a": algo, "d": d}]},
                                   {"op": "clear", "lane": rng.choice(lanes)}]))
        prog["steps"] += ws_
        if key:
            prog["steps"].append({"op": "metadata", "lane": rng.choice(lanes), "key": key})
            prog["steps"].append({"op": "read", "lane": rng.choice(lanes), "key": key})
        prog["steps"].append({"op": "list", "lane": rng.choice(lanes)})
    return prog


ALGOS_RANK = {"sha512": 0, "sha384": 1, "sha256": 2, "sha1": 3, "xxh3": 4}


def abandon_program(rng, ncases, lanes=ALL_LANES, big=False):
    """C14: writers abandoned at every point, interleaved with successful operations"""
    prog = {"keys": {}, "blobs": {}, "steps": []}
    okkeys = [add_key(prog, "stable-%d-%d" % (i, rng.randrange(10 ** 6))) for i in range(2)]
    d_ok = _mk_data(prog, rng, 33)
    wrong = add_blob(prog, b"not the data %d" % rng.randrange(10 ** 6))
    for k in okkeys:
        prog["steps"].append({"op": "write", "lane": rng.choice(lanes), "key": k, "data": d_ok, "algo": "sha256"})
    for c in range(ncases):
        n = rng.choice([MIB + 5, 2 * MIB] if big else [0, 1, 10, 5000, 70000])
        d = _mk_data(prog, rng, n)
        if not big and rng.random() < 0.3:
            # the abandoned / rejected writer carries bytes that committed keys already hold: its
            # disappearance must not take their (shared, content-addressed) file with it
            d, n = d_ok, 33
        lane = rng.choice(lanes)
        keyed = rng.random() < 0.8
        key = add_key(prog, rand_key(rng, c)) if keyed else None
        opts = rand_opts(rng) if rng.random() < 0.3 else {}
        point = rng.choice(["after_open", "after_chunks", "inflight", "after_close", "rejected_size",
                            "rejected_sri", "after_all", "odd_order", "cleared", "cleared"])
        ch = rng.choice(chunkings(rng, n, big))
        w = "w%d" % c
        if point == "rejected_size":
            opts["size"] = n + 1
        if point == "rejected_sri":
            opts["sri"] = [{"a": "sha256", "d": wrong}]
        s = {"op": "open_writer", "lane": lane, "opts": dict(opts, algo="sha256"), "as": w, "plan": d}
        if key:
            s["key"] = key
        prog["steps"].append(s)
        if point == "after_open":
            feed = []
        elif point in ("after_chunks", "inflight"):
            feed = ch[:rng.randrange(0, len(ch) + 1)]
        else:
            feed = ch
        for (lo, hi) in feed:
            prog["steps"].append({"op": "w_write", "lane": lane, "h": w, "data": d, "from": lo, "to": hi})
        # an unrelated successful operation while the writer is open
        if rng.random() < 0.5:
            prog["steps"].append({"op": "write", "lane": rng.choice(lanes), "key": rng.choice(okkeys),
                                  "data": d_ok, "algo": "sha256"})
        if point == "cleared":
            # the whole cache is cleared while the writer is open (its temp file is swept away):
            # commit must return (an error, or success when the content is there again), never hang
            prog["steps"].append({"op": "clear", "lane": rng.choice(lanes)})
            if rng.random() < 0.3:
                prog["steps"].append({"op": "write", "lane": rng.choice(lanes), "data": d, "algo": "sha256"})
            if rng.random() < 0.3:
                prog["steps"].append({"op": "w_write", "lane": lane, "h": w, "data": d, "from": 0, "to": 0})
            prog["steps"].append({"op": rng.choice(["w_commit", "w_commit", "h_drop"]), "lane": lane, "h": w})
            for k in okkeys:
                prog["steps"].append({"op": "write", "lane": rng.choice(lanes), "key": k, "data": d_ok, "algo": "sha256"})
        elif point == "odd_order":
            # unusual but legal call orders on the handle: flush before any write, zero-length
            # writes, repeated flushes, close twice, write / flush / commit after close
            seq = rng.sample(["flush", "zero", "flush", "close", "close", "zero_v", "write_after"], rng.randrange(2, 6))
            closed = False
            for a_ in seq:
                if a_ == "flush":
                    prog["steps"].append({"op": "w_flush", "lane": lane, "h": w})
                elif a_ == "zero":
                    prog["steps"].append({"op": "w_write", "lane": lane, "h": w, "data": d, "from": 0, "to": 0,
                                          "all": rng.random() < 0.5})
                elif a_ == "zero_v":
                    prog["steps"].append({"op": "w_write", "lane": lane, "h": w, "data": d, "from": 0, "to": 0,
                                          "vectored": 1})
                elif a_ == "close" and lane in ("Aa", "Ta"):
                    prog["steps"].append({"op": "w_close", "lane": lane, "h": w})
                    closed = True
                elif a_ == "write_after" and closed:
                    prog["steps"].append({"op": "w_write", "lane": lane, "h": w, "data": d, "from": 0, "to": min(n, 5)})
            prog["steps"].append({"op": rng.choice(["w_commit", "h_drop"]), "lane": lane, "h": w})
        elif point in ("rejected_size", "rejected_sri"):
            prog["steps"].append({"op": "w_commit", "lane": lane, "h": w})
        elif point == "inflight" and lane in ("Aa", "Ta"):
            prog["steps"].append({"op": "h_drop", "lane": lane, "h": w, "inflight": True, "data": d,
                                  "from": 0, "to": min(n, 4096)})
        elif point == "after_close" and lane in ("Aa", "Ta"):
            prog["steps"].append({"op": "w_close", "lane": lane, "h": w})
            if rng.random() < 0.5:
                prog["steps"].append({"op": "w_write", "lane": lane, "h": w, "data": d, "from": 0, "to": min(n, 3)})
            if rng.random() < 0.5:
                prog["steps"].append({"op": "w_commit", "lane": lane, "h": w})
            else:
                prog["steps"].append({"op": "h_drop", "lane": lane, "h": w})
        else:
            prog["steps"].append({"op": "h_drop", "lane": lane, "h": w})
        observe_all(prog, rng, lanes, okkeys + ([key] if key else []), [("sha256", d_ok)], read=False)
    return prog


# ---------------------------------------------------------------------------------------
# retrieval of pristine and damaged content (C01, C18), algorithms (C16)
# ---------------------------------------------------------------------------------------

BUFSIZES = [1, 7, 1024, 8192, 65536]


def retrieval_steps(rng, prog, lanes, key, algo, d, xcount, which=None, dest_exists_p=0.25, big=False, size=None):
    """every checked (and some unchecked) retrieval entry point for one entry"""
    st = []
    sri = [{"a": algo, "d": d}]
    kinds = which or ["read_k", "read_h", "reader_k", "reader_h", "copy", "hard_link", "reflink",
                      "copy_u", "hard_link_u"]
    for kind in kinds:
        lane = rng.choice(lanes)
        if kind == "read_k":
            st.append({"op": "read", "lane": lane, "key": key})
        elif kind == "read_h":
            st.append({"op": "read", "lane": lane, "sri": sri})
        elif kind in ("reader_k", "reader_h"):
            r = "r%d" % xcount[0]
            xcount[0] += 1
            s = {"op": "open_reader", "lane": lane, "as": r}
            if kind == "reader_k":
                s["key"] = key
            else:
                s["sri"] = sri
            st.append(s)
            if not big and rng.random() < 0.2:
                # the handle outlives what happens to the address: content removed by address,
                # re-published, or replaced behind the library's back after the open - the
                # descriptor keeps reading the file it opened
                ev_ = rng.choice(["remove_hash", "rewrite", "replace"])
                if ev_ == "remove_hash":
                    st.append({"op": "remove_hash", "lane": rng.choice(lanes), "sri": sri})
                elif ev_ == "rewrite":
                    st.append({"op": "write", "lane": rng.choice(lanes), "data": d, "algo": algo})
                else:
                    st.append({"op": "env_content", "algo": algo, "blob": d, "mode": "replace", "with": prog["_pre"]})
            # (a one-byte buffer on a megabyte file means a million calls through the runtime:
            # slow enough to trip the watchdog under load, which would be a false alarm)
            bs = rng.choice(BUFSIZES[2:] if big else BUFSIZES)
            how = rng.random()
            if how < 0.3:
                # the provided read_to_end(), into a fresh vector or into an assembly buffer that
                # already holds bytes (the entry's original bytes, or unrelated ones)
                st.append({"op": "r_read", "lane": lane, "h": r, "n": 0, "to_end": True, "orig": d,
                           "prefill": rng.choice([None, "same", "same", "00" * 16, "abcdef"])})
            elif how < 0.4:
                st.append({"op": "r_read", "lane": lane, "h": r, "n": 0, "copy": True})     # io::copy
            elif how < 0.5 and size is not None:
                # scatter reads (read_vectored): a first buffer of exactly the entry's size (or one
                # read buffer) with a small second one behind it, then the rest
                first = rng.choice([size, size, bs, max(1, size // 2)])
                st.append({"op": "r_read", "lane": lane, "h": r, "n": first + 16, "split": [first, 0, 16]})
                st.append({"op": "r_read", "lane": lane, "h": r, "n": bs, "all": True})
            elif how < 0.75:
                st.append({"op": "r_read", "lane": lane, "h": r, "n": bs, "all": True})
            else:
                for _ in range(rng.randrange(0, 3)):
                    st.append({"op": "r_read", "lane": lane, "h": r, "n": bs})
            st.append({"op": "r_check", "lane": lane, "h": r})
        else:
            base = kind.replace("_u", "")
            checked = not kind.endswith("_u")
            x = "x%d" % xcount[0]
            xcount[0] += 1
            if rng.random() < dest_exists_p:
                st.append({"op": "env_ext", "id": x, "blob": prog["_pre"]})
            s = {"op": "extract", "lane": lane, "kind": base, "checked": checked, "to": x}
            if rng.random() < 0.5:
                s["key"] = key
            else:
                s["sri"] = sri
            st.append(s)
    return st


def damage_steps(rng, prog, algo, d, n, others, exhaustive_small=False):
    """list of alternative damage steps for the content file of (algo, d)"""
    alts = []
    if n > 0:
        alts.append({"op": "env_content", "algo": algo, "blob": d, "mode": "flip", "bit": rng.randrange(n * 8)})
        alts.append({"op": "env_content", "algo": algo, "blob": d, "mode": "cut", "len": rng.randrange(0, n)})
        alts.append({"op": "env_content", "algo": algo, "blob": d, "mode": "empty"})
        alts.append({"op": "env_content", "algo": algo, "blob": d, "mode": "overwrite", "off": rng.randrange(n),
                     "bytes": bytes(rng.randrange(256) for _ in range(rng.randrange(1, 9))).hex()})
    alts.append({"op": "env_content", "algo": algo, "blob": d, "mode": "extend",
                 "extra": bytes(rng.randrange(256) for _ in range(rng.choice([1, 2, 3, 4, 4096, 8192]))).hex()})
    alts.append({"op": "env_content", "algo": algo, "blob": d, "mode": "remove"})
    if others:
        o = rng.choice(others)
        alts.append({"op": "env_content", "algo": algo, "blob": d, "mode": "replace", "with": o[1]})
        alts.append({"op": "env_content", "algo": algo, "blob": d, "mode": "swap",
                     "other": {"algo": o[0], "blob": o[1]}})
    alts.append({"op": "_link_damage"})
    return alts


def retrieve_program(rng, rounds, lanes=ALL_LANES, big=False, algos=ALGOS, exhaustive=None):
    prog = {"keys": {}, "blobs": {}, "steps": []}
    prog["_pre"] = add_blob(prog, b"pre-existing destination")
    entries = []
    # (sizes on both sides of, and exactly at, multiples of the usual read-buffer sizes)
    sizes = [MIB - 1, MIB, MIB + 1] if big else [0, 1, 5, 40, 1000, 9000, 8192, 16384, 65536, 8191, 8193]
    for i in range(3 if not big else 2):
        n = rng.choice(sizes)
        d = _mk_data(prog, rng, n)
        a = rng.choice(algos)
        k = add_key(prog, rand_key(rng, i))
        prog["steps"].append({"op": "write", "lane": rng.choice(lanes), "key": k, "data": d, "algo": a})
        entries.append((k, a, d, n))
    xc = [0]
    foreign = add_blob(prog, b"bytes of a file outside the cache %d" % rng.randrange(10 ** 6))
    for r in range(rounds):
        k, a, d, n = rng.choice(entries)
        others = [(aa, dd) for (_, aa, dd, _) in entries if dd != d]
        if exhaustive is None and rng.random() < 0.2:
            # the destination of an extraction ALREADY IS a hard link to this entry's content (an
            # earlier hard_link put it there), pristine or since damaged in place (same inode)
            x = "own%d" % r
            sri = [{"a": a, "d": d}]
            first = {"op": "extract", "lane": rng.choice(lanes), "kind": "hard_link", "checked": rng.random() < 0.5, "to": x}
            first.update({"key": k} if rng.random() < 0.5 else {"sri": sri})
            own = [first]
            aged = rng.random() < 0.4
            if aged:
                # the content has been lying there for hours (and was verified once already) ...
                own = [{"op": "env_raw", "action": "age_all"},
                       dict({"op": "extract", "lane": first["lane"], "kind": "copy", "checked": True, "to": x + "v"},
                            **({"key": k} if "key" in first else {"sri": sri})), first]
            if n > 0 and rng.random() < (0.8 if aged else 0.5):
                # ... and is then damaged IN PLACE; for aged content with its old modification time
                # restored (bit rot does not touch time stamps): nothing may vouch for the bytes
                # but the bytes
                dm_ = dict(rng.choice([{"mode": "flip", "bit": rng.randrange(n * 8)},
                                       {"mode": "cut", "len": rng.randrange(0, n)},
                                       {"mode": "extend", "extra": "00ff"}]),
                           op="env_content", algo=a, blob=d, inplace=True)
                if aged:
                    dm_ = dict({"mode": "flip", "bit": rng.randrange(n * 8)}, op="env_content", algo=a, blob=d,
                               inplace=True, keep_mtime=True)
                own.append(dm_)
            for _ in range(rng.choice([1, 2])):
                second = {"op": "extract", "lane": rng.choice(lanes), "kind": rng.choice(["copy", "copy", "hard_link", "reflink"]),
                          "checked": rng.random() < 0.6, "to": x}
                second.update({"key": k} if rng.random() < 0.5 else {"sri": sri})
                own.append(second)
            own += [{"op": "read", "lane": rng.choice(lanes), "key": k}, {"op": "read", "lane": rng.choice(lanes), "sri": sri}]
            if rng.random() < 0.4:
                # the extracted hard link made read-only by its owner, then the entry removed from
                # the cache: the file outside keeps its bytes AND its permission bits
                own.append({"op": "env_chmod", "id": x, "mode": rng.choice([0o400, 0o444])})
                own.append(rng.choice([{"op": "remove_hash", "lane": rng.choice(lanes), "sri": sri},
                                       {"op": "remove_fully", "lane": rng.choice(lanes), "key": k}]))
            # (the address holds regular pristine content here: every round ends with a re-write)
            prog["steps"] += own
            prog["steps"].append({"op": "write", "lane": rng.choice(lanes), "key": k, "data": d, "algo": a})
        if exhaustive is not None:
            dmg = exhaustive(r, a, d, n)
            if dmg is None:
                break
        else:
            dmg = rng.choice(damage_steps(rng, prog, a, d, n, others) + [None])
        if dmg is not None:
            if dmg["op"] == "_link_damage":
                x = "lt%d" % r
                prog["steps"].append({"op": "env_ext", "id": x, "blob": rng.choice([foreign, d])})
                prog["steps"].append({"op": "env_content", "algo": a, "blob": d, "mode": "link", "to": x})
            else:
                prog["steps"].append(dmg)
        which = None
        if big or exhaustive is not None:
            which = rng.sample(["read_k", "read_h", "reader_k", "reader_h", "copy", "hard_link", "reflink"], 3)
        prog["steps"] += retrieval_steps(rng, prog, lanes, k, a, d, xc, which, big=big, size=n)
        # heal: re-writing the same data - by key or by address alone - replaces whatever is at the
        # address (and the healed entry reads back)
        if rng.random() < 0.5:
            prog["steps"].append({"op": "write", "lane": rng.choice(lanes), "key": k, "data": d, "algo": a})
        else:
            prog["steps"].append({"op": "write", "lane": rng.choice(lanes), "data": d, "algo": a})
        if rng.random() < 0.5:
            prog["steps"].append({"op": "read", "lane": rng.choice(lanes), "key": k})
        if dmg is not None and dmg.get("mode") == "swap":
            o = dmg["other"]
            prog["steps"].append({"op": "write", "lane": rng.choice(lanes), "data": o["blob"], "algo": o["algo"]})
    del prog["_pre"]
    return prog


def boundary_retrieve_program(rng, sizes=(8192, 16384), lanes=("S", "Aa", "Ta")):
    """systematic: entries whose size is a multiple of the usual read-buffer sizes x damage at the
    very end of the file (one byte more, one buffer more, one byte less, last bit flipped) x every
    checked extraction and read entry point, by key AND by address, in a blocking and both async
    lanes (verification loops that stop on a byte count instead of end-of-file live here)"""
    prog = {"keys": {}, "blobs": {}, "steps": []}
    prog["_pre"] = add_blob(prog, b"pre-existing destination")
    xc = 0
    for i, n in enumerate(sizes):
        d = _mk_data(prog, rng, n)
        a = rng.choice(["sha256", "sha512", "sha1"])
        k = add_key(prog, rand_key(rng, i))
        sri = [{"a": a, "d": d}]
        prog["steps"].append({"op": "write", "lane": rng.choice(lanes), "key": k, "data": d, "algo": a})
        for dm in ({"mode": "extend", "extra": "00"}, {"mode": "extend", "extra": "ab" * 8192},
                   {"mode": "cut", "len": n - 1}, {"mode": "flip", "bit": n * 8 - 1}):
            prog["steps"].append(dict(dm, op="env_content", algo=a, blob=d))
            for lane in lanes:
                for tgt in ({"key": k}, {"sri": sri}):
                    prog["steps"].append(dict({"op": "read", "lane": lane}, **tgt))
                    for kind in ("copy", "hard_link"):
                        prog["steps"].append(dict({"op": "extract", "lane": lane, "kind": kind, "checked": True,
                                                   "to": "bx%d" % xc}, **tgt))
                        xc += 1
            prog["steps"].append({"op": "write", "lane": rng.choice(lanes), "key": k, "data": d, "algo": a})
    del prog["_pre"]
    return prog


def exhaustive_small_damage(n):
    """every single-bit flip and every truncation length of an n-byte file"""
    plan = [("flip", b) for b in range(n * 8)] + [("cut", l) for l in range(n)]

    def f(r, a, d, nn):
        if r >= len(plan):
            return None
        m, v = plan[r]
        if m == "flip":
            return {"op": "env_content", "algo": a, "blob": d, "mode": "flip", "bit": v}
        return {"op": "env_content", "algo": a, "blob": d, "mode": "cut", "len": v}
    return f, len(plan)


def small_exhaustive_program(rng, n, algo, lanes=ALL_LANES):
    """one n-byte entry; all bit flips and truncations; three retrieval entry points each"""
    prog = {"keys": {}, "blobs": {}, "steps": []}
    prog["_pre"] = add_blob(prog, b"pre-existing destination")
    d = add_blob(prog, bytes(rng.randrange(256) for _ in range(n)))
    k = add_key(prog, rand_key(rng, 0))
    prog["steps"].append({"op": "write", "lane": rng.choice(lanes), "key": k, "data": d, "algo": algo})
    f, total = exhaustive_small_damage(n)
    xc = [0]
    for r in range(total):
        prog["steps"].append(f(r, algo, d, n))
        which = rng.sample(["read_k", "read_h", "reader_k", "reader_h", "copy", "hard_link", "reflink"], 3)
        prog["steps"] += retrieval_steps(rng, prog, lanes, k, algo, d, xc, which, dest_exists_p=0.1)
        prog["steps"].append({"op": "write", "lane": rng.choice(lanes), "data": d, "algo": algo})
        if r % 7 == 0 or r == total - 1:
            prog["steps"].append({"op": "read", "lane": rng.choice(lanes), "key": k})     # healed
    del prog["_pre"]
    return prog


def algo_program(rng, ncases, lanes=ALL_LANES):
    """C16: equal data re-written under same/different keys, entry points, algorithms"""
    prog = {"keys": {}, "blobs": {}, "steps": []}
    datas = [_mk_data(prog, rng, n) for n in (0, 1, 50, 3000)]
    keys = [add_key(prog, rand_key(rng, i)) for i in range(5)]
    seen = set()
    for c in range(ncases):
        d = rng.choice(datas)
        a = rng.choice(ALGOS)
        lane = rng.choice(lanes)
        k = rng.choice(keys + [None])
        how = rng.choice(["oneshot", "opts", "create_with_algo"])
        if k is None and how == "create_with_algo":
            how = "opts"
        n = len(bytes.fromhex(prog["blobs"][d]["hex"])) if d != "empty" else 0
        prog["steps"] += write_steps(rng, prog, lane, d, n, a, k, how, rng.choice(chunkings(rng, n)),
                                     {"size": n} if rng.random() < 0.4 else {}, alias="w%d" % c)
        seen.add((a, d))
        r = rng.random()
        if r < 0.15 and seen:
            aa, dd = rng.choice(sorted(seen))
            prog["steps"].append({"op": "remove_hash", "lane": rng.choice(lanes), "sri": [{"a": aa, "d": dd}]})
        elif r < 0.35 and seen:
            # something else sits at the address (a damaged copy of the same or another length):
            # storing the bytes again must leave the address holding exactly them
            aa, dd = rng.choice(sorted(seen))
            nn = len(bytes.fromhex(prog["blobs"][dd]["hex"])) if dd != "empty" else 0
            dm = rng.choice(["flip", "cut", "extend", "overwrite"])
            st_ = {"op": "env_content", "algo": aa, "blob": dd, "mode": dm}
            if dm == "flip":
                st_["bit"] = rng.randrange(max(1, nn * 8))
            elif dm == "cut":
                st_["len"] = rng.randrange(0, max(1, nn))
            elif dm == "extend":
                st_["extra"] = "00ff"
            else:
                st_.update({"off": rng.randrange(max(1, nn)), "bytes": "a5"})
            prog["steps"].append(st_)
            kk = rng.choice(keys + [None])
            prog["steps"] += write_steps(rng, prog, rng.choice(lanes), dd, nn, aa, kk,
                                         rng.choice(["oneshot", "opts"]), rng.choice(chunkings(rng, nn)),
                                         {}, alias="h%d" % c)
        observe_all(prog, rng, lanes, keys, sorted(seen), with_list=(rng.random() < 0.3))
        if rng.random() < 0.4:
            # an address given as an Integrity with hashes of SEVERAL algorithms: the strongest one
            # names the file (whether or not the weaker one's copy exists); removal by such a
            # value removes that copy only
            dd = rng.choice(datas)
            a1, a2 = rng.sample(["sha512", "sha384", "sha256", "sha1"], 2)
            multi = [{"a": a1, "d": dd}, {"a": a2, "d": dd}]
            if rng.random() < 0.4:
                # ... or two digests of ONE algorithm (of two different data values)
                d2 = rng.choice([x for x in datas if x != dd] or [dd])
                multi = [{"a": a1, "d": dd}, {"a": a1, "d": d2}]
            prog["steps"].append({"op": "exists", "lane": rng.choice(lanes), "sri": multi})
            prog["steps"].append({"op": "read", "lane": rng.choice(lanes), "sri": multi})
            if rng.random() < 0.3:
                prog["steps"].append({"op": "remove_hash", "lane": rng.choice(lanes), "sri": multi})
                for aa in (a1, a2):
                    prog["steps"].append({"op": "exists", "lane": rng.choice(lanes), "sri": [{"a": aa, "d": dd}]})
    return prog


# ---------------------------------------------------------------------------------------
# link_to (C19)
# ---------------------------------------------------------------------------------------

LINK_SIZES = [0, 5, 8, 9, 16 * 1024 - 1, 16 * 1024, 16 * 1024 + 1, 40 * 1024]


def link_program(rng, ncases, lanes=ALL_LANES):
    prog = {"keys": {}, "blobs": {}, "steps": []}
    other = add_blob(prog, b"changed target contents %d" % rng.randrange(10 ** 6))
    wrong = add_blob(prog, b"declared but wrong %d" % rng.randrange(10 ** 6))
    xc = 0
    for c in range(ncases):
        n = rng.choice(LINK_SIZES)
        d = _mk_data(prog, rng, n)
        lane = rng.choice(lanes)
        t = "t%d" % c
        tstep = {"op": "env_ext", "id": t, "blob": d}
        if rng.random() < 0.35:
            tstep["mode"] = rng.choice([0o444, 0o400, 0o440])     # a read-only target stays read-only
        prog["steps"].append(tstep)
        keyed = rng.random() < 0.75
        key = add_key(prog, rand_key(rng, c)) if keyed else None
        rel = rng.random() < 0.35
        if rel:
            prog["steps"].append({"op": "chdir", "lane": lane, "to": rng.choice(["ext", "base", "root", "/"])})
        pre = rng.random() < 0.2
        if pre:   # the address already exists as regular content
            prog["steps"].append({"op": "write", "lane": rng.choice(lanes), "data": d, "algo": "sha256"})
        elif rng.random() < 0.3:
            # the address already exists as a link to ANOTHER file holding the same bytes
            t0 = "t%dtwin" % c
            prog["steps"].append({"op": "env_ext", "id": t0, "blob": d})
            prog["steps"].append({"op": "link_to", "lane": rng.choice(lanes), "target": t0})
            if rng.random() < 0.5:
                # ... and that other file is gone by now: the address holds a DANGLING link; linking
                # again must fail or succeed without writing anything through the stale link
                prog["steps"].append({"op": "env_ext", "id": t0, "blob": None})
        how = rng.choice(["oneshot", "linker", "linker_opts"])
        expect_ok = True
        # the target named through other spellings of the same file
        spell = rng.choice(["plain", "plain", "dot", "slashes", "dotdot_real", "dotdot_symlink", "symlink_dir"])
        if how == "oneshot":
            s = {"op": "link_to", "lane": lane, "target": t, "relative": rel, "spelling": spell}
            if key:
                s["key"] = key
            prog["steps"].append(s)
        else:
            l = "l%d" % c
            s = {"op": "open_linker", "lane": lane, "target": t, "relative": rel, "as": l, "spelling": spell}
            if key:
                s["key"] = key
            if how == "linker_opts":
                o = rand_opts(rng)
                v = rng.choice(["plain", "size_ok", "size_bad", "size_small", "sri_ok", "sri_bad"])
                if v == "size_ok":
                    o["size"] = n
                elif v == "size_bad":
                    o["size"] = n + rng.choice([1, 16 * 1024])
                    expect_ok = False
                elif v == "size_small" and n > 0:
                    # declared smaller than the target: 0, off by one, one read buffer of a larger file
                    o["size"] = rng.choice([0, n - 1] + ([16 * 1024] if n > 16 * 1024 else []))
                    expect_ok = False
                elif v == "sri_ok":
                    o["sri"] = [{"a": "sha256", "d": d}]
                elif v == "sri_bad":
                    o["sri"] = [{"a": "sha256", "d": wrong}]
                    expect_ok = False
                s["opts"] = o
            prog["steps"].append(s)
            for _ in range(rng.randrange(0, 3)):
                prog["steps"].append({"op": "r_read", "lane": lane, "h": l, "n": rng.choice([1, 8, 9, 100, 70000])})
            rd = rng.random()
            if rd < 0.25:
                # the caller reads the rest of the target itself through the provided helpers
                # (read_to_end re-polls with a partly filled buffer, io::copy with its own)
                prog["steps"].append({"op": "r_read", "lane": lane, "h": l, "n": 0, "to_end": True,
                                      "prefill": rng.choice([None, None, "00" * 40])})
            elif rd < 0.35:
                prog["steps"].append({"op": "r_read", "lane": lane, "h": l, "n": 0, "copy": True})
            if rel and rng.random() < 0.6:
                # the process changes its working directory between opening the linker on a
                # RELATIVE target and committing it: the link must name the file that was opened
                # (and hashed), not whatever that relative path means at commit time
                prog["steps"].append({"op": "chdir", "lane": lane, "to": rng.choice(["elsewhere", "/", "base", "root"])})
            prog["steps"].append({"op": "l_commit", "lane": lane, "h": l})
        if rel:
            prog["steps"].append({"op": "chdir", "lane": lane, "to": "/"})
        # read back through several entry points
        sri = [{"a": "sha256", "d": d}]
        for _ in range(2):
            l2 = rng.choice(lanes)
            if key:
                prog["steps"].append({"op": "read", "lane": l2, "key": key})
                prog["steps"].append({"op": "metadata", "lane": l2, "key": key})
            prog["steps"].append({"op": "read", "lane": rng.choice(lanes), "sri": sri})
        prog["steps"].append({"op": "exists", "lane": rng.choice(lanes), "sri": sri})
        x = "x%d" % xc
        xc += 1
        prog["steps"].append({"op": "extract", "lane": rng.choice(lanes), "kind": "copy", "checked": True,
                              "to": x, "sri": sri})
        if rng.random() < 0.25:
            # extraction whose destination is the very file the entry links to: the target must
            # come out of it unchanged (a copy of a file onto itself)
            prog["steps"].append({"op": "extract", "lane": rng.choice(lanes), "kind": rng.choice(["copy", "copy", "hard_link"]),
                                  "checked": rng.random() < 0.5, "to": t, "sri": sri})
            prog["steps"].append({"op": "read", "lane": rng.choice(lanes), "sri": sri})
        # the target changes / disappears / is replaced after linking
        after = rng.choice(["keep", "change", "remove", "replace_same"])
        if after == "change":
            prog["steps"].append({"op": "env_ext", "id": t, "blob": other})
        elif after == "remove":
            prog["steps"].append({"op": "env_ext", "id": t, "blob": None})
        elif after == "replace_same":
            prog["steps"].append({"op": "env_ext", "id": t, "blob": None})
            prog["steps"].append({"op": "env_ext", "id": t, "blob": d})
        if key:
            prog["steps"].append({"op": "read", "lane": rng.choice(lanes), "key": key})
        prog["steps"].append({"op": "read", "lane": rng.choice(lanes), "sri": sri})
        r = "r%d" % c
        prog["steps"].append({"op": "open_reader", "lane": lane, "sri": sri, "as": r})
        prog["steps"].append({"op": "r_read", "lane": lane, "h": r, "n": 4096, "all": True})
        prog["steps"].append({"op": "r_check", "lane": lane, "h": r})
        rr = rng.random()
        if rr < 0.25:
            prog["steps"].append({"op": "remove_hash", "lane": rng.choice(lanes), "sri": sri})
        elif rr < 0.45 and key:
            prog["steps"].append({"op": "remove_fully", "lane": rng.choice(lanes), "key": key})
    return prog


# ---------------------------------------------------------------------------------------
# index damage (C06)
# ---------------------------------------------------------------------------------------

GARBAGE_LINES = [b"", b"garbage", b"\x00\x00\x00", b"\xff\xfe\xfd", b"\xc3\x28", b"a\tb", b"a\tb\tc",
                 b"deadbeef\t{}", b"\xe2\x82", b"{\"key\":1}", b"\r", b"x\r"]


def _hashed(payload):
    """a line whose checksum MATCHES its payload (what the checksum protects is the text, not
    that the text is a record)"""
    return (hashlib.sha256(payload).hexdigest() + "\t").encode() + payload


# correctly checksummed lines whose payload is not a record the readers accept: not JSON, JSON of
# another shape, a record with a field missing / of the wrong type / out of range, a record nested
# deeper than the reader's recursion limit (a foreign writer, an older version, a stray tool)
GARBAGE_LINES += [_hashed(x) for x in (
    b"{}", b"[]", b"null", b"not json", b"{\"key\":1}", b"42", b"\"text\"",
    b'{"key":"k","integrity":null,"size":0,"metadata":null}',                       # no time
    b'{"key":"k","integrity":null,"time":-1,"size":0,"metadata":null}',
    b'{"key":"k","integrity":null,"time":1,"size":-1,"metadata":null}',
    b'{"key":"k","integrity":null,"time":1.5,"size":0,"metadata":null}',
    b'{"key":"k","integrity":null,"time":"1","size":0,"metadata":null}',
    b'{"key":"k","integrity":7,"time":1,"size":0,"metadata":null}',
    b'{"key":"k","integrity":null,"time":1,"size":0}',                              # no metadata
    b'{"key":"k","integrity":null,"time":1,"size":0,"metadata":null,"raw_metadata":"x"}',
    b'{"key":"k","integrity":null,"time":1,"size":0,"metadata":null,"raw_metadata":[256]}',
    b'{"key":"k","integrity":null,"time":340282366920938463463374607431768211456,"size":0,"metadata":null}',
    b'{"key":"k","integrity":null,"time":1,"size":18446744073709551616,"metadata":null}',
    b'{"key":"k","integrity":null,"time":1,"size":0,"metadata":' + b"[" * 200 + b"]" * 200 + b"}",
    b'{"key":"k","integrity":null,"time":1,"size":0,"metadata":' + b'{"a":' * 127 + b"1" + b"}" * 127 + b"}",
)]


def index_damage_program(rng, lanes=ALL_LANES, nrec=3, flips="sample", cuts="all", multibyte=True):
    """A small real bucket (<= 3 records of one or two keys); every cut length and (all or a
    sample of) single-bit flips; inserted garbage / NUL / invalid UTF-8 lines; duplicated and
    reordered fragments; each followed by lookups through sync and async readers, a listing,
    and (for a sample) further appends."""
    prog = {"keys": {}, "blobs": {}, "steps": []}
    k = add_key(prog, ("ключ-é-%d" % rng.randrange(10 ** 6)) if multibyte else "k%d" % rng.randrange(10 ** 6))
    datas = [_mk_data(prog, rng, n) for n in (3, 10)]
    metas = [{"é": "ü", "n": 1}, None, "short"]
    if rng.random() < 0.35:
        metas[rng.randrange(3)] = {"long": "x" * rng.choice([8300, 66000])}   # a line longer than a read buffer
    nbytes = 0
    for i in range(nrec):
        o = {"meta": metas[i % 3], "time": str(1000 + i)}
        how = rng.random()
        if how < 0.6:
            o["sri"] = [{"a": "sha256", "d": datas[i % 2]}]
            o["size"] = rng.randrange(1000)
            prog["steps"].append({"op": "index_insert", "lane": rng.choice(lanes), "key": k, "opts": o})
        elif how < 0.8 and i > 0:
            prog["steps"].append({"op": "remove", "lane": rng.choice(lanes), "key": k})
        else:
            prog["steps"].append({"op": "write", "lane": rng.choice(lanes), "key": k, "data": datas[i % 2],
                                  "algo": "sha256"})
        nbytes += 260
    prog["steps"].append({"op": "env_bucket", "key": k, "mode": "save", "slot": "orig"})

    def observe(extra_append=False):
        ls = list(lanes)
        rng.shuffle(ls)
        sync_lane = next((l for l in ls if l.endswith("s") or l == "S"), ls[0])
        async_lane = next((l for l in ls if l.endswith("a")), ls[0])
        prog["steps"].append({"op": "metadata", "lane": sync_lane, "key": k})
        prog["steps"].append({"op": "metadata", "lane": async_lane, "key": k})
        if rng.random() < 0.3:
            prog["steps"].append({"op": "list", "lane": sync_lane})
        if extra_append:
            prog["steps"].append({"op": "write", "lane": rng.choice(lanes), "key": k, "data": datas[0], "algo": "sha256"})
            prog["steps"].append({"op": "metadata", "lane": sync_lane, "key": k})
            prog["steps"].append({"op": "metadata", "lane": async_lane, "key": k})
            prog["steps"].append({"op": "list", "lane": sync_lane})

    dmgs = []
    maxlen = nbytes + 200
    if cuts == "all":
        dmgs += [{"mode": "cut", "len": n} for n in range(0, maxlen)]
    else:
        dmgs += [{"mode": "cut", "len": rng.randrange(maxlen)} for _ in range(cuts)]
    if flips == "all":
        dmgs += [{"mode": "flip", "bit": b, "_nowrap": True} for b in range(maxlen * 8)]
    else:
        dmgs += [{"mode": "flip", "bit": rng.randrange(maxlen * 8)} for _ in range(int(flips) if flips != "sample" else 150)]
    for g in GARBAGE_LINES:
        for idx in range(0, nrec + 2):
            dmgs.append({"mode": "insert_line", "index": idx, "bytes": g.hex()})
    for i in range(nrec):
        # bytes glued straight behind a record; every bit of every separating newline
        # (a CR LF glued behind a record - also behind the LAST one - makes it a DOS-terminated
        # line, which every line reader of the pinned tree accepts)
        for g in (b"\xff", b"\x8a", b"\xc3", b"x", b"\xe2\x82", b"\x00", b"\r", b"\r\n", b"\r\n\r\n", b"\r\r\n"):
            dmgs.append({"mode": "glue", "index": i, "bytes": g.hex()})
        for bit in range(8):
            dmgs.append({"mode": "flip_nl", "index": i, "bit": bit})
        # the checksum FIELD of a record shortened (from either end, down to nothing) or
        # lengthened, the payload behind the tab left byte-exact
        for (a_, b_) in ((0, 0), (0, 2), (0, 32), (0, 62), (0, 63), (2, 64), (1, 64), (63, 64), (64, 64)):
            dmgs.append({"mode": "hash_field", "index": i, "keep": [a_, b_], "pad": ""})
        for pad in ("00", "ab" * 32, " "):
            dmgs.append({"mode": "hash_field", "index": i, "keep": [0, 64], "pad": pad})
    for m_ in (512, 4096, 8192, 65536, 131072):
        dmgs.append({"mode": "pad_to", "multiple": m_})
    dmgs.append({"mode": "dos"})
    for i in range(nrec):
        dmgs.append({"mode": "dup_line", "index": i})
        dmgs.append({"mode": "drop_nl", "index": i})
        dmgs.append({"mode": "swap_lines", "i": i, "j": i + 1})
    for _ in range(30):
        dmgs.append({"mode": "overwrite", "off": rng.randrange(maxlen),
                     "bytes": bytes(rng.choice([0, 9, 10, 13, 0xff, 0xc3, rng.randrange(256)])
                                    for _ in range(rng.randrange(1, 12))).hex()})
    for dm in dmgs:
        st = {"op": "env_bucket", "key": k}
        st.update(dm)
        prog["steps"].append(st)
        observe(extra_append=(rng.random() < 0.08))
        prog["steps"].append({"op": "env_bucket", "key": k, "mode": "restore", "slot": "orig"})
    return prog


# ---------------------------------------------------------------------------------------
# hostile directory states (C20, totality mode), lane variants (C12), reference-written caches (C17)
# ---------------------------------------------------------------------------------------

def hostile_state_program(rng, lanes=ALL_LANES):
    prog = {"keys": {}, "blobs": {}, "steps": []}
    k = add_key(prog, rand_key(rng, 0))
    k2 = add_key(prog, rand_key(rng, 1))
    d = _mk_data(prog, rng, 20)
    d2 = _mk_data(prog, rng, 7)
    prog["steps"].append({"op": "write", "lane": rng.choice(lanes), "key": k, "data": d, "algo": "sha256"})
    action = rng.choice(["bucket_dir", "content_dir", "tmp_file", "index_file", "content_file", "root_gone",
                         "bucket_fifo_like_empty"])
    st = {"op": "env_raw", "action": action, "key": rng.choice([k, k2]), "algo": "sha256", "blob": d}
    prog["steps"].append(st)
    kk = st["key"]
    for lane in lanes:
        ops = [{"op": "metadata", "lane": lane, "key": kk}, {"op": "read", "lane": lane, "key": kk},
               {"op": "read", "lane": lane, "sri": [{"a": "sha256", "d": d}]},
               {"op": "exists", "lane": lane, "sri": [{"a": "sha256", "d": d}]},
               {"op": "list", "lane": lane},
               {"op": "extract", "lane": lane, "kind": "copy", "checked": True, "to": "x" + lane, "key": kk},
               {"op": "write", "lane": lane, "key": kk, "data": d2, "algo": "sha256"},
               {"op": "write", "lane": lane, "data": d, "algo": "sha256"},
               {"op": "remove", "lane": lane, "key": kk},
               {"op": "remove_hash", "lane": lane, "sri": [{"a": "sha256", "d": d}]},
               {"op": "remove_fully", "lane": lane, "key": kk},
               {"op": "open_writer", "lane": lane, "key": kk, "opts": {"algo": "sha256", "size": 7}, "as": "w" + lane, "plan": d2},
               {"op": "w_write", "lane": lane, "h": "w" + lane, "data": d2},
               {"op": "w_commit", "lane": lane, "h": "w" + lane},
               {"op": "open_reader", "lane": lane, "key": kk, "as": "r" + lane},
               {"op": "r_read", "lane": lane, "h": "r" + lane, "n": 100, "all": True},
               {"op": "r_check", "lane": lane, "h": "r" + lane}]
        rng.shuffle(ops)
        # keep handle ops in order
        hs = [o for o in ops if "h" in o or "as" in o]
        hs.sort(key=lambda o: ["open_writer", "w_write", "w_commit", "open_reader", "r_read", "r_check"].index(o["op"]))
        ops = [o for o in ops if not ("h" in o or "as" in o)] + hs
        prog["steps"] += ops
    prog["steps"].append({"op": "clear", "lane": rng.choice(lanes)})
    return prog


def mixed_program(rng, lanes=ALL_LANES, nparts=4, scale=1):
    """Cross-feature interactions: several small programs of DIFFERENT generators (histories with
    removals of all kinds, round trips, commits with declared values, abandoned writers, damaged
    content and retrievals, links, algorithms) run on ONE cache, their steps randomly interleaved
    (each program's own order kept; handle aliases and external file names made unique).  Any
    interleaving is a valid input: the contract, not the generator, says what must happen."""
    makers = [
        lambda: history_program(rng, 10 * scale, lanes=lanes, nkeys=3, ndata=3, removal_weight=0.3, bulk=True,
                                full_opts=True, plant=True, garbage=True, algos=("sha256", "sha1")),
        lambda: roundtrip_program(rng, 3 * scale, lanes=lanes),
        lambda: commit_program(rng, 4 * scale, lanes=lanes),
        lambda: abandon_program(rng, 4 * scale, lanes=lanes),
        lambda: retrieve_program(rng, 3 * scale, lanes=lanes),
        lambda: link_program(rng, 3 * scale, lanes=lanes),
        lambda: algo_program(rng, 3 * scale, lanes=lanes),
    ]
    subs = [m() for m in rng.sample(makers, nparts)]
    out = {"keys": {}, "blobs": {}, "steps": []}
    queues = []
    def rekey(v, m):
        if isinstance(v, dict):
            return {k: (m.get(x, x) if k == "key" and isinstance(x, str) else rekey(x, m)) for k, x in v.items()}
        if isinstance(v, list):
            return [rekey(x, m) for x in v]
        return v
    for i, sp in enumerate(subs):
        # keys are private to each part (two parts picking the same hostile key would make one
        # part's destinations hard links of ANOTHER part's content - the caller's own aliasing);
        # what the parts share is the cache: listings, clear, the store, the temp area
        m = {}
        for kid, ks in sp["keys"].items():
            ns = "%s~p%d" % (ks, i)
            m[kid] = key_id(ns)
            out["keys"][m[kid]] = ns
        out["blobs"].update(sp["blobs"])
        q = []
        for st in sp["steps"]:
            st = rekey(dict(st), m)
            for f in ("as", "h"):
                if f in st:
                    st[f] = "p%d-%s" % (i, st[f])
            for f in ("id", "to", "target"):
                if f in st and isinstance(st[f], str) and st["op"] in ("env_ext", "extract", "link_to", "open_linker", "env_content"):
                    st[f] = "p%d-%s" % (i, st[f])
            q.append(st)
        queues.append(q)
    while any(queues):
        q = rng.choice([x for x in queues if x])
        for _ in range(rng.randrange(1, 5)):
            if q:
                out["steps"].append(q.pop(0))
    return out


def cancel_program(rng, lanes=("Aa", "Ta")):
    """systematic: by-address async writers on which one write future is polled once and dropped
    (first, middle or last chunk), then flushed or not, then committed: whatever the writer
    then holds, the address it returns is the digest of the file stored under it"""
    prog = {"keys": {}, "blobs": {}, "steps": []}
    c = 0
    for lane in lanes:
        for n in (300, 70000):
            for pat in ("first", "middle", "last"):
                d = _mk_data(prog, rng, n)
                a = "cw%d" % c
                c += 1
                # chunk sizes: equal thirds, shrinking (the write after the cancelled one is strictly
                # SHORTER than it - a result of the abandoned operation must not be reported for it),
                # or growing
                shape = rng.choice(["equal", "shrink", "shrink", "grow"])
                if shape == "equal":
                    cuts = [(0, n // 3), (n // 3, 2 * n // 3), (2 * n // 3, n)]
                elif shape == "shrink":
                    a1 = n - n // 3 - rng.randrange(1, 4)
                    a2 = a1 + (n - a1) * 2 // 3
                    cuts = [(0, a1), (a1, a2), (a2, n)]
                else:
                    a1 = rng.randrange(1, max(2, n // 10))
                    a2 = a1 + rng.randrange(a1 + 1, max(a1 + 2, n // 3))
                    cuts = [(0, a1), (a1, a2), (a2, n)]
                which = {"first": 0, "middle": 1, "last": 2}[pat]
                prog["steps"].append({"op": "open_writer", "lane": lane, "opts": {"algo": rng.choice(["sha256", "sha1", "sha512"])},
                                      "as": a, "plan": d, "via": "opts"})
                for i, (lo, hi) in enumerate(cuts):
                    w = {"op": "w_write", "lane": lane, "h": a, "data": d, "from": lo, "to": hi, "all": True}
                    if i == which:
                        w["cancel"] = True
                    prog["steps"].append(w)
                    if rng.random() < 0.3:
                        prog["steps"].append({"op": "w_flush", "lane": lane, "h": a})
                prog["steps"].append({"op": "w_commit", "lane": lane, "h": a})
                prog["steps"].append({"op": "list", "lane": "S"})
    return prog


def twofs_program(rng, lanes=ALL_LANES, ndest=40):
    """(sessions with the cache and the destinations on two fresh file systems) many destination
    files that exist already - their inode numbers cover those of the cache's content files, on
    ANOTHER device - and copies of every entry onto each of them, checked and unchecked, by key and
    by address: each destination ends up holding the entry's bytes"""
    prog = {"keys": {}, "blobs": {}, "steps": []}
    pre = add_blob(prog, b"stale destination %d" % rng.randrange(10 ** 6))
    ents = []
    for i, n in enumerate((50, 5000)):
        d = _mk_data(prog, rng, n)
        k = add_key(prog, rand_key(rng, i))
        prog["steps"].append({"op": "write", "lane": rng.choice(lanes), "key": k, "data": d, "algo": "sha256"})
        ents.append((k, d))
    for j in range(ndest):
        prog["steps"].append({"op": "env_ext", "id": "tf%d" % j, "blob": pre})
    for (k, d) in ents:
        for j in range(ndest):
            st = {"op": "extract", "lane": rng.choice(lanes), "kind": "copy", "checked": rng.random() < 0.5, "to": "tf%d" % j}
            st.update({"key": k} if rng.random() < 0.5 else {"sri": [{"a": "sha256", "d": d}]})
            prog["steps"].append(st)
        for j in range(ndest):          # (and back to the stale bytes for the next entry)
            prog["steps"].append({"op": "env_ext", "id": "tf%d" % j, "blob": pre})
    return prog


def pid1_program(rng, lanes=("S", "Aa", "Ta")):
    """processes that are PID 1 of a fresh pid namespace (every container start): one opens a
    writer, feeds it and dies; the next ones - PID 1 again, every counter of theirs at zero again -
    write the same and other keys.  What a dead process left in tmp/ is nobody's: it must not get
    in the way, whatever names the library gives its temp files."""
    prog = {"keys": {}, "blobs": {}, "steps": []}
    k0 = add_key(prog, "pid1-bystander-%d" % rng.randrange(10 ** 6))
    d0 = _mk_data(prog, rng, 9)
    prog["steps"].append({"op": "write", "lane": "S", "key": k0, "data": d0, "algo": "sha256"})
    for i, lane in enumerate(lanes):
        k = add_key(prog, "pid1-%d-%d" % (i, rng.randrange(10 ** 6)))
        d1 = _mk_data(prog, rng, rng.choice([40, 70000]))
        d2 = _mk_data(prog, rng, 100)
        prog["steps"].append({"op": "pid1_abandon", "lane": lane, "key": k, "data": d1})
        prog["steps"].append({"op": "metadata", "lane": rng.choice(ALL_LANES), "key": k})
        for _ in range(2):
            prog["steps"].append({"op": "write", "lane": lane, "key": k, "data": d2, "algo": "sha256", "pid1": True})
            prog["steps"].append({"op": "read", "lane": rng.choice(ALL_LANES), "key": k})
        prog["steps"].append({"op": "write", "lane": lane, "data": d1, "algo": "sha256", "pid1": True})
        prog["steps"].append({"op": "read", "lane": rng.choice(ALL_LANES), "key": k0})
        prog["steps"].append({"op": "list", "lane": "S"})
    return prog


def fullfs_program(rng, lanes):
    """A file system that is FULL for real (the co-processes of the session live on a small private
    tmpfs; vf/session.py Driver(tmpfs=...)): every write entry point with data that no longer
    fits - declared sizes (the preallocated / memory-mapped path), plain streams, one-shot calls,
    raw index inserts, removals - then the same calls again after space was freed.  Total mode:
    whatever a call answers, it answers (no SIGBUS on a page that cannot be backed, no abort)."""
    prog = {"keys": {}, "blobs": {}, "steps": []}
    small = _mk_data(prog, rng, 100)
    big = _mk_data(prog, rng, 256 * 1024)
    keys = [add_key(prog, "fullfs-%d-%d" % (i, rng.randrange(10 ** 6))) for i in range(6)]
    prog["steps"].append({"op": "write", "lane": lanes[0], "key": keys[0], "data": small, "algo": "sha256"})

    def attempts(tag):
        st = []
        for li, lane in enumerate(lanes):
            st.append({"op": "write", "lane": lane, "key": keys[1], "data": big, "algo": "sha256"})
            st.append({"op": "write", "lane": lane, "data": big, "algo": "sha256"})
            for keyed in (True, False):
                for declared in (True, False):
                    a = "%s%d%d%d" % (tag, li, keyed, declared)
                    o = {"algo": "sha256"}
                    if declared:
                        o["size"] = 256 * 1024
                    s_ = {"op": "open_writer", "lane": lane, "opts": o, "as": a, "plan": big, "via": "opts"}
                    if keyed:
                        s_["key"] = keys[2]
                    st += [s_, {"op": "w_write", "lane": lane, "h": a, "data": big, "from": 0, "to": 100000, "all": True},
                           {"op": "w_write", "lane": lane, "h": a, "data": big, "from": 100000, "to": 256 * 1024, "all": True},
                           {"op": "w_commit", "lane": lane, "h": a}]
            st.append({"op": "write", "lane": lane, "key": keys[3], "data": small, "algo": "sha256"})
            st.append({"op": "index_insert", "lane": lane, "key": keys[4], "opts": {"sri": [{"a": "sha256", "d": small}], "size": 100}})
            st.append({"op": "remove", "lane": lane, "key": keys[0]})
            st.append({"op": "metadata", "lane": lane, "key": keys[0]})
            st.append({"op": "read", "lane": lane, "key": keys[3]})
            st.append({"op": "list", "lane": lane})
        return st
    prog["steps"].append({"op": "fs_fill", "lane": lanes[0], "leave": rng.choice([0, 4096, 32768, 131072])})
    prog["steps"] += attempts("f")
    prog["steps"].append({"op": "fs_free", "lane": lanes[0]})
    prog["steps"] += attempts("g")
    return prog


def with_lanes(prog, assign):
    """the same program with lanes re-assigned: assign(i, step) -> lane"""
    p = dict(prog)
    steps = []
    for i, st in enumerate(prog["steps"]):
        st = dict(st)
        if "lane" in st:
            st["lane"] = assign(i, st)
        steps.append(st)
    p["steps"] = steps
    return p


def refwrite_program(rng, nrec, lanes=ALL_LANES):
    """C17, reference writes / library reads: the whole cache is produced by the independent
    writer (content files at their addresses, index records appended to their buckets)"""
    prog = {"keys": {}, "blobs": {}, "steps": []}
    keys = [add_key(prog, rand_key(rng, i)) for i in range(4)]
    datas = [_mk_data(prog, rng, n) for n in (0, 3, 200, 5000)]
    addrs = set()
    for i in range(nrec):
        k = rng.choice(keys)
        d = rng.choice(datas)
        a = rng.choice(["sha256", "sha512", "sha1", "sha384"])
        if rng.random() < 0.8:
            prog["steps"].append({"op": "env_content", "algo": a, "blob": d, "mode": "replace", "with": d})
            addrs.add((a, d))
        tomb = rng.random() < 0.2
        meta = rand_json(rng)
        raw = None if rng.random() < 0.6 else [rng.randrange(256) for _ in range(rng.randrange(0, 20))]
        prog["steps"].append({"op": "env_bucket", "key": k, "mode": "plant", "style": rng.randrange(5),
                              "entry": {"key": k, "sri": None if tomb else [{"a": a, "d": d}],
                                        "time": rand_time(rng), "size": rng.choice([rng.randrange(0, 2 ** 31 - 1), 2 ** 53 + 3, 2 ** 64 - 2]),
                                        "metadata": meta, "raw_metadata": raw}})
        if rng.random() < 0.5:
            observe_all(prog, rng, lanes, keys, sorted(addrs), read=True)
    observe_all(prog, rng, lanes, keys, sorted(addrs), read=True)
    return prog


def removal_combo_programs(rng, lanes=ALL_LANES, lanes_per_combo=2):
    """C09, systematic: every ordered pair of removal kinds applied to ONE key whose content is
    shared with another key, each step followed by observations of every key and address, then
    a re-write.  (Pairs such as 'remove, then remove_fully' reach code paths - a lookup that
    ends in a tombstone - which single removals and random histories seldom do.)"""
    kinds = ["remove", "remove_hash", "remove_fully", "clear"]
    progs = []
    for r1 in kinds:
        for r2 in kinds:
            for lane2 in rng.sample(list(lanes), lanes_per_combo):
                prog = {"keys": {}, "blobs": {}, "steps": []}
                if rng.random() < 0.5:
                    a = add_key(prog, rand_key(rng, 0))
                    b = add_key(prog, rand_key(rng, 1))
                    c = add_key(prog, rand_key(rng, 2))
                else:
                    # the key that is removed and its neighbours: buckets in the same index
                    # sub-directory (the first 16 bits of their SHA-1 agree)
                    a, b, c = [add_key(prog, ks) for ks in sibling_keys(rng, 3, 16)]
                d = _mk_data(prog, rng, rng.choice([1, 30, 900]))
                e = _mk_data(prog, rng, 11)
                keys = [a, b, c]
                addrs = [("sha256", d), ("sha256", e)]
                for k, x in ((a, d), (b, d), (c, e)):
                    prog["steps"].append({"op": "write", "lane": rng.choice(lanes), "key": k, "data": x, "algo": "sha256"})

                def rm(kind, lane):
                    if kind == "remove":
                        return {"op": "remove", "lane": lane, "key": a, "variant": rng.choice(["plain", "opts", "index_delete"])}
                    if kind == "remove_hash":
                        return {"op": "remove_hash", "lane": lane, "sri": [{"a": "sha256", "d": d}]}
                    if kind == "remove_fully":
                        return {"op": "remove_fully", "lane": lane, "key": a}
                    return {"op": "clear", "lane": lane}
                prog["steps"].append(rm(r1, rng.choice(lanes)))
                observe_all(prog, rng, lanes, keys, addrs, read=True)
                prog["steps"].append(rm(r2, lane2))
                observe_all(prog, rng, lanes, keys, addrs, read=True)
                prog["steps"].append({"op": "write", "lane": rng.choice(lanes), "key": a, "data": e, "algo": "sha256"})
                observe_all(prog, rng, lanes, keys, addrs, read=True)
                progs.append(prog)
    return progs


def cleared_writer_program(rng, lanes=ALL_LANES):
    """systematic: for every lane x keyed/by-address x declared size or not: open a writer, feed
    it, clear the cache (sweeping its temp file away), possibly re-publish the same content,
    then commit or drop - every call must RETURN"""
    prog = {"keys": {}, "blobs": {}, "steps": []}
    c = 0
    for lane in lanes:
        for keyed in (True, False):
            for declare in (False, True):
                for then in ("commit", "rewrite_commit", "drop"):
                    n = rng.choice([0, 10, 5000])
                    d = _mk_data(prog, rng, n)
                    w = "cw%d" % c
                    s_ = {"op": "open_writer", "lane": lane, "opts": dict({"algo": "sha256"}, **({"size": n} if declare else {})),
                          "as": w, "plan": d}
                    if keyed:
                        s_["key"] = add_key(prog, rand_key(rng, c))
                    prog["steps"].append(s_)
                    prog["steps"].append({"op": "w_write", "lane": lane, "h": w, "data": d})
                    prog["steps"].append({"op": "clear", "lane": rng.choice(lanes)})
                    if then == "rewrite_commit":
                        prog["steps"].append({"op": "write", "lane": rng.choice(lanes), "data": d, "algo": "sha256"})
                    prog["steps"].append({"op": "h_drop" if then == "drop" else "w_commit", "lane": lane, "h": w})
                    prog["steps"].append({"op": "list", "lane": "S"})
                    c += 1
    return prog
