"""Seeded generators of programs (universe + abstract steps)."""
import hashlib
import json
import random

from . import refimpl as R
from .session import ALL_LANES

HOSTILE_KEYS = [
    "", "a", "A", "key", "Key", "../x", "../../etc/passwd", "/etc/passwd", "a/b/c", "a\\b",
    "tab\there", "new\nline", "cr\rlf\r\n", "quote\"s'", "nul\u0000byte", "ctl\u0001\u001f\u007f",
    "café", "café", "é", "é", "☃ snowman", "\U0001F600",
    "k" * 300, "long-" + "x" * 4000, " leading", "trailing ", ".", "..", "index-v5", "content-v2/sha256",
    "{\"key\":\"json\"}", "\\u0000", "%00", "a​b", "﻿bom", "CON", "nul",
]

ALGOS = ["sha256", "sha512", "sha1", "sha384", "xxh3"]


def rand_key(rng, i):
    r = rng.random()
    if r < 0.5:
        return "%s#%d" % (rng.choice(HOSTILE_KEYS), i)      # made unique by the suffix
    if r < 0.8:
        n = rng.randrange(1, 12)
        return "".join(chr(rng.choice([rng.randrange(0x20, 0x7f), rng.randrange(0xa0, 0x2ff),
                                       rng.randrange(0x4e00, 0x4e80), rng.randrange(0x1f600, 0x1f640)]))
                       for _ in range(n)) + "#%d" % i
    return "key-%d" % i


def rand_json(rng, depth=0):
    r = rng.random()
    if depth > 2 or r < 0.45:
        c = rng.randrange(9)
        if c == 0:
            return None
        if c == 1:
            return rng.random() < 0.5
        if c == 2:
            return rng.choice([0, 1, -1, 2 ** 31, -2 ** 31, 2 ** 53, 2 ** 63 - 1, -2 ** 63, 2 ** 64 - 1,
                               rng.randrange(-10 ** 9, 10 ** 9)])
        if c == 3:
            # short decimals (<= 6 significant digits), which JSON text carries exactly
            return float("%d.%d" % (rng.randrange(-999, 1000), rng.randrange(0, 1000)))
        if c == 4:
            return rng.choice(["", "x", "tab\t", "nl\n", "q\"", "\u0000", "\u001f", "café",
                               "\U0001F600", "\\", "/", " "])
        return "".join(chr(rng.randrange(0x20, 0x250)) for _ in range(rng.randrange(0, 10)))
    if r < 0.72:
        return [rand_json(rng, depth + 1) for _ in range(rng.randrange(0, 4))]
    return {("f%d" % i if rng.random() < 0.7 else rng.choice(["", "k\t", "é", "key"]) + str(i)):
            rand_json(rng, depth + 1) for i in range(rng.randrange(0, 4))}


def rand_time(rng):
    return rng.choice([0, 1, 2 ** 31, 2 ** 53, 2 ** 64, 2 ** 128 - 1, rng.randrange(0, 2 ** 128),
                       rng.randrange(10 ** 12, 2 * 10 ** 12)])


def key_id(s):
    return "k" + hashlib.sha1(s.encode("utf-8")).hexdigest()[:8]


def add_key(prog, s):
    kid = key_id(s)
    prog["keys"][kid] = s
    return kid


def add_blob(prog, data=None, gen=None):
    """identifiers are derived from the value, so they mean the same bytes in every program"""
    if gen is not None:
        data = R.gen_bytes(gen[0], gen[1])
        bid = R.blob_id(data)
        prog["blobs"][bid] = {"gen": list(gen)}
    else:
        bid = R.blob_id(data)
        if bid != "empty":
            prog["blobs"][bid] = {"hex": data.hex()}
    return bid


def small_universe(rng, nkeys=6, ndata=5, hostile=True, sizes=None):
    prog = {"keys": {}, "blobs": {}, "steps": []}
    for i in range(nkeys):
        add_key(prog, rand_key(rng, i) if hostile else "key-%d-%d" % (i, rng.randrange(10 ** 6)))
    ids = []
    for i in range(ndata):
        if sizes:
            n = sizes[i % len(sizes)]
        else:
            n = rng.choice([0, 1, 2, 5, 17, 100, 1000, 5000])
        if n <= 2048:
            ids.append(add_blob(prog, bytes(rng.randrange(256) for _ in range(n))))
        else:
            ids.append(add_blob(prog, gen=(rng.randrange(1 << 40), n)))
    prog["data_ids"] = sorted(set(ids))
    return prog


def rand_opts(rng, full=False):
    o = {}
    if rng.random() < (0.7 if full else 0.3):
        o["time"] = str(rand_time(rng))
    if rng.random() < (0.7 if full else 0.3):
        o["meta"] = rand_json(rng)
    if rng.random() < (0.5 if full else 0.2):
        o["raw"] = {"hex": bytes(rng.randrange(256) for _ in range(rng.randrange(0, 40))).hex()}
    return o


def observe_all(prog, rng, lanes, keys, addrs=(), with_list=True, read=True):
    """lookups of every key (and address) + listing: what the properties are stated about"""
    for k in keys:
        prog["steps"].append({"op": "metadata", "lane": rng.choice(lanes), "key": k,
                              "variant": rng.choice(["", "index_find"])})
        if read:
            prog["steps"].append({"op": "read", "lane": rng.choice(lanes), "key": k})
    for (a, d) in addrs:
        prog["steps"].append({"op": "exists", "lane": rng.choice(lanes), "sri": [{"a": a, "d": d}]})
        if read:
            prog["steps"].append({"op": "read", "lane": rng.choice(lanes), "sri": [{"a": a, "d": d}]})
    if with_list:
        prog["steps"].append({"op": "list", "lane": rng.choice(lanes),
                              "variant": rng.choice(["", "index_ls"])})


def history_program(rng, length, lanes=ALL_LANES, nkeys=6, ndata=5, removal_weight=0.2,
                    bulk=False, observe_every=1, full_opts=False, algos=("sha256",), plant=False):
    """Random history of keyed writes (several entry points), raw inserts, removals of all kinds,
    with lookups of every key and a listing after every mutating step."""
    prog = small_universe(rng, nkeys, ndata)
    keys = list(prog["keys"])
    datas = list(prog["data_ids"])
    addrs = set()
    for n in range(length):
        lane = rng.choice(lanes)
        k = rng.choice(keys)
        r = rng.random()
        if r < 0.40:
            d = rng.choice(datas)
            a = rng.choice(algos)
            how = rng.random()
            if how < 0.5:
                prog["steps"].append({"op": "write", "lane": lane, "key": k, "data": d, "algo": a,
                                      "variant": "plain" if (a == "sha256" and rng.random() < 0.5) else "algo"})
            else:
                o = rand_opts(rng, full_opts)
                o["algo"] = a
                w = "w%d" % n
                prog["steps"].append({"op": "open_writer", "lane": lane, "key": k, "opts": o, "as": w, "plan": d})
                prog["steps"].append({"op": "w_write", "lane": lane, "h": w, "data": d})
                prog["steps"].append({"op": "w_commit", "lane": lane, "h": w})
            addrs.add((a, d))
        elif r < 0.50:
            d = rng.choice(datas)
            a = rng.choice(algos)
            o = rand_opts(rng, full_opts)
            o["sri"] = [{"a": a, "d": d}]
            if rng.random() < 0.5:
                o["size"] = rng.randrange(0, 10 ** 6)
            prog["steps"].append({"op": "index_insert", "lane": lane, "key": k, "opts": o})
        elif r < 0.50 + removal_weight:
            rr = rng.random()
            if rr < 0.55:
                prog["steps"].append({"op": "remove", "lane": lane, "key": k,
                                      "variant": rng.choice(["plain", "opts", "index_delete"])})
            elif rr < 0.75 and addrs:
                a, d = rng.choice(sorted(addrs))
                prog["steps"].append({"op": "remove_hash", "lane": lane, "sri": [{"a": a, "d": d}]})
            elif rr < 0.92 and bulk:
                prog["steps"].append({"op": "remove_fully", "lane": lane, "key": k})
            elif bulk:
                prog["steps"].append({"op": "clear", "lane": lane})
            else:
                prog["steps"].append({"op": "remove", "lane": lane, "key": k})
        elif r < 0.78 and plant:
            # a record of a foreign key planted in this key's bucket (what a SHA-1 collision
            # would produce), written by the reference writer
            fk = rng.choice(keys)
            d = rng.choice(datas)
            prog["steps"].append({"op": "env_bucket", "key": k, "mode": "plant",
                                  "entry": {"key": fk, "sri": [{"a": "sha256", "d": d}],
                                            "time": rng.randrange(10 ** 12), "size": rng.randrange(100),
                                            "metadata": None, "raw_metadata": None}})
        else:
            d = rng.choice(datas)
            prog["steps"].append({"op": "write", "lane": lane, "data": d, "algo": rng.choice(algos)})
            addrs.add((prog["steps"][-1]["algo"], d))
        if n % observe_every == 0:
            observe_all(prog, rng, lanes, keys, sorted(addrs), read=(rng.random() < 0.5))
    observe_all(prog, rng, lanes, keys, sorted(addrs))
    return prog
