"""Validate recorded traces with TLC and attribute every divergence to the properties it
speaks about.  TLC is the oracle; this module only routes its verdicts."""
import json
import os
import re

from . import trace as T
from .common import run_tlc, ToolError

MAX_DIAG_ROUNDS = 25


def _mismatches(out):
    ms = []
    for m in re.finditer(r'<<\s*"MISMATCH",\s*"((?:[^"\\]|\\.)*)"\s*>>', out, re.S):
        txt = m.group(1).encode().decode("unicode_escape")
        try:
            ms.append(json.loads(txt))
        except Exception:
            ms.append({"what": "unparsed", "text": txt[:500]})
    return ms


def collect_divergences(session, base, workdir):
    """Diagnostic validation: returns a list of divergences, each with the trace line, the event
    and expected/observed values as TLC computed them."""
    path = base + ".diag.ndjson"
    session.write_trace(path, diag=True)
    lines = open(path).read().splitlines()
    found = []
    for _ in range(MAX_DIAG_ROUNDS):
        with open(path, "w") as f:
            f.write("\n".join(lines) + "\n")
        res = run_tlc("TraceAPI", "TraceAPI_diag.cfg", workdir, env={"TRACE": path},
                      workers=1, timeout=900, deque=True)
        out = res["out"]
        for mm in _mismatches(out):
            if not any(f.get("line") == mm.get("line") and f.get("what") == mm.get("what") for f in found):
                mm["event"] = json.loads(lines[mm["line"] - 1]) if isinstance(mm.get("line"), int) else None
                found.append(mm)
        m = re.search(r'"REJECTED", (\d+)', out)
        if not m:
            if '"ACCEPTED"' not in out:
                raise ToolError("TLC failed in diagnostic validation:\n" + out[-3000:])
            break
        j = int(m.group(1))
        ev = json.loads(lines[j - 1])
        found.append({"line": j, "what": "disabled", "event": ev})
        lines[j - 1] = json.dumps({"ev": "skip"})
    found.sort(key=lambda d: d.get("line", 0))
    return found


# ---------------------------------------------------------------------------- attribution

def _entry_diff_fields(a, b):
    return {k for k in ("key", "sri", "time", "size", "meta", "raw") if a.get(k) != b.get(k)}


def classify(div, ctx=None):
    """Set of property ids a divergence speaks about."""
    ctx = ctx or {}
    what = div.get("what")
    ev = div.get("event") or {}
    op = (ev.get("op") or {}) if ev.get("ev") in ("call", "env") else {}
    name = op.get("op", "")
    props = set()
    exp, obs = div.get("exp"), div.get("obs")
    if what == "result":
        e = (obs or {}).get("e")
        if e in ("PANIC", "HANG", "DIED"):
            props.add("C20")
        keyed = "key" in op
        if name in ("read", "open_reader", "r_read", "r_check"):
            props |= {"C01"}
            if isinstance(exp, dict) and exp.get("ok") and isinstance(obs, dict) and not obs.get("ok"):
                props |= {"C02"}
            if keyed:
                props |= {"C05"}
        if name == "metadata":
            ev_ = (exp or {}).get("v") or []
            ov_ = (obs or {}).get("v") or []
            if len(ev_) != len(ov_):
                props |= {"C05", "C09", "C06"}
            elif ev_ and ov_:
                d = _entry_diff_fields(ev_[0], ov_[0])
                if d & {"time", "size", "meta", "raw"}:
                    props.add("C11")
                if d & {"sri", "key"}:
                    props |= {"C05", "C11", "C06"}
            else:
                props |= {"C05"}
        if name == "list":
            props |= {"C10"}
            eo = {json.dumps(x, sort_keys=True) for x in (exp or {}).get("v", [])}
            oo = {json.dumps(x, sort_keys=True) for x in (obs or {}).get("v", [])}
            ek = {json.loads(x)["key"] for x in eo}
            ok_ = {json.loads(x)["key"] for x in oo}
            # (an entry listed with other field values than the lookup's is C10's subject: the
            # listed entry may well be a verbatim - but stale - record, which C11 does not exclude)
            if ek != ok_:
                props |= {"C09", "C06"}
        if name == "exists":
            props |= {"C09", "C16", "C02"}
        if name == "extract":
            props |= {"C18"}
            if op.get("checked"):
                props.add("C01")
        if name in ("write", "w_commit", "open_writer", "w_write", "w_flush", "w_close"):
            props |= {"C02", "C08"}
            if isinstance(exp, dict) and isinstance(obs, dict) and exp.get("ok") and obs.get("ok"):
                props |= {"C16"}
            # a keyed write that REPORTS success where the contract refuses it: the next lookup will
            # not return "the entry of the most recent successful write" (C05)
            if (keyed or name == "w_commit") and isinstance(exp, dict) and isinstance(obs, dict) \
                    and not exp.get("ok") and obs.get("ok"):
                props |= {"C05"}
        if name in ("h_drop",):
            props |= {"C14"}
        if name == "index_insert":
            props |= {"C05", "C11"}
        if name in ("remove", "remove_hash", "remove_fully", "clear"):
            props |= {"C09"}
        if name in ("link_to", "open_linker", "l_read", "l_commit"):
            props |= {"C19"}
        if ctx.get("faulted"):
            props.add("C13")
    elif what == "buckets":
        props |= {"C05", "C17"}
        last = ctx.get("last_op", "")
        if last in ("remove", "remove_hash", "remove_fully", "clear"):
            props.add("C09")
        if last in ("w_commit", "write", "h_drop", "w_close", "open_writer", "w_write"):
            props |= {"C08"}
            # an index record left by a writer that was abandoned or whose commit was REJECTED is
            # C14's subject; a record written by a commit that reported success is not
            if last != "w_commit" or ctx.get("last_res_ok") is False:
                props |= {"C14"}
        props |= {"C11"}
        if last in ("link_to", "l_commit"):
            props.add("C19")
    elif what == "store":
        props |= {"C16", "C03", "C17"}
        last = ctx.get("last_op", "")
        if last in ("remove", "remove_hash", "remove_fully", "clear"):
            props.add("C09")
        if last in ("write", "w_commit"):
            props |= {"C02"}
        # content appearing or disappearing through a writer that was abandoned or whose commit
        # was rejected is C14's subject (its effect on other entries' lookups)
        if last in ("h_drop", "w_close") or (last == "w_commit" and ctx.get("last_res_ok") is False):
            props |= {"C14", "C08"}
        if last in ("link_to", "l_commit"):
            props.add("C19")
        if last in ("read", "metadata", "exists", "list", "open_reader", "r_read", "r_check"):
            props.add("C15")
    elif what == "ext":
        last = ctx.get("last_op", "")
        props |= {"C18"} if last == "extract" else {"C19", "C15"}
        if last in ("remove", "remove_hash", "remove_fully", "clear"):
            props.add("C09")            # a removal that reached files outside the cache
        # (bytes left at a destination by an extraction that FAILED are C18's subject, not C01's:
        # C01 speaks about what a successful checked retrieval hands out)
        if last == "extract" and ctx.get("last_res_ok"):
            props.add("C01")
        # an external file some entry LINKS TO changed: whatever call did it, C19 (link targets are
        # never modified) speaks about it
        try:
            e_ = {x["id"]: x["b"] for x in (exp or [])}
            o_ = {x["id"]: x["b"] for x in (obs or [])}
            changed = {i for i in set(e_) | set(o_) if e_.get(i) != o_.get(i)}
            targets = {c["c"].get("to") for c in (ev.get("store") or []) if c.get("c", {}).get("k") == "link"}
            if changed & targets:
                props.add("C19")
        except (TypeError, KeyError, AttributeError):
            pass
    elif what == "tmp":
        props |= {"C14"}
        if ctx.get("last_op") in ("read", "metadata", "exists", "list"):
            props.add("C15")
    elif what == "hasIndex":
        props |= {"C09", "C15", "C17"}
    elif what == "disabled":
        if op.get("slice_ok") is False:
            props |= {"C01", "C19"}
        elif op.get("now_ok") is False:
            props |= {"C11"}
        elif name == "w_commit":
            props |= {"C02", "C08"}
        else:
            props |= {"C20"}
    return props


def last_call_before(trace_lines, line, with_res=False):
    for j in range(line - 1, 0, -1):
        try:
            ev = json.loads(trace_lines[j - 1])
        except Exception:
            continue
        if ev.get("ev") in ("call", "env"):
            if with_res:
                return ev["op"].get("op", ""), (ev.get("res") or {}).get("ok")
            return ev["op"].get("op", "")
    return ("", None) if with_res else ""
