"""Trace validation: hand a recorded trace to TLC (spec/TraceAPI.tla) and interpret the verdict."""
import json
import os
import re

from .common import run_tlc, ToolError, WORK


def validate_file(path, workdir, module="TraceAPI", cfg="TraceAPI.cfg", timeout=900):
    res = run_tlc(module, cfg, workdir, env={"TRACE": path}, workers=1, timeout=timeout, deque=True)
    out = res["out"]
    info = {"states": res["distinct"], "transitions": res["generated"], "wall": res["wall"]}
    if '"ACCEPTED"' in out and "Error:" not in out:
        info["accepted"] = True
        return info
    info["accepted"] = False
    m = re.search(r'"REJECTED", (\d+)', out)
    if m:
        info["line"] = int(m.group(1))
    m = re.search(r"Invariant (\w+) is violated", out)
    if m:
        info["invariant"] = m.group(1)
    if "line" not in info and "invariant" not in info:
        raise ToolError("TLC failed on trace %s:\n%s" % (path, out[-3000:]))
    info["out_tail"] = out[-1500:]
    return info


def diagnose(session, path_diag, workdir):
    """Re-run in diagnostic mode (mismatches are printed, validation continues); returns the
    text of the first mismatch report."""
    session.write_trace(path_diag, diag=True)
    res = run_tlc("TraceAPI", "TraceAPI.cfg", workdir, env={"TRACE": path_diag}, workers=1,
                  timeout=900, deque=True)
    out = res["out"]
    m = re.search(r'<<\s*"MISMATCH"', out)
    if not m:
        return out[-1200:]
    rest = out[m.start():]
    m2 = re.search(r'<<\s*"MISMATCH"', rest[5:])
    txt = rest[:m2.start() + 5] if m2 else rest
    return txt[:4000]


def event_at(path, line):
    with open(path) as f:
        for i, l in enumerate(f, 1):
            if i == line:
                return json.loads(l)
    return None
