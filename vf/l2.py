"""L2 binding: system-call level runs as behaviours of CacacheFS.tla (spec/TraceFS2.tla).

The effect-carrying calls of each traced process are mapped to the actions of the
system-call specification; TLC checks that each is enabled where it occurs and that the
specification's disk state equals the observed projection after every step.  A rejection is
reported as `model_drift` unless the step that does not fit is one whose misplacement is
itself a property violation (see DRIFT_PROPS)."""
import json
import os
import re

from .common import run_tlc, ToolError

O_CREAT, O_EXCL, O_APPEND, O_WRONLY, O_RDWR = 0o100, 0o200, 0o2000, 1, 2

MODELLED = {"write", "read", "metadata", "exists", "list", "remove", "remove_hash", "link_to", "remove_fully", "clear"}


def event_class(e):
    """class of a visible call for the L2 binding"""
    name, area, ret = e["name"], e["area"], e["ret"]
    ok = ret >= 0
    cls = "noise"
    if area == "tmp" and e["file"] and name in ("openat", "open", "creat", "openat2") and (e["flags"] & O_CREAT):
        cls = "create_tmp"
    elif area == "tmp" and e["file"] and name in ("write", "pwrite64", "writev"):
        cls = "write_tmp"
    elif name.startswith("rename") and area == "content" and e.get("area1") == "tmp":
        cls = "publish"
    elif area == "index" and e["file"] and name in ("openat", "open", "openat2") and e["mut"]:
        cls = "open_bucket_w"
    elif area == "index" and e["file"] and name in ("write", "pwrite64", "writev"):
        cls = "append" if (ok and ret == e.get("count", ret)) else ("failed_effect" if not ok else "append_short")
        return cls
    elif area == "content" and e["file"] and name.startswith("unlink"):
        cls = "unlink_content"
    elif area == "content" and name in ("symlink", "symlinkat"):
        cls = "symlink"
    elif area == "index" and e["file"] and name.startswith("unlink"):
        cls = "unlink_bucket"
    if cls != "noise" and not ok:
        return "failed_effect"
    return cls


def abstract_op(sop, ext=None):
    """contract-level op record -> operation record of CacacheFS"""
    op = sop["op"]
    if op == "link_to":
        # the data is what the target holds when the run begins
        d = (ext or {}).get(sop.get("target"))
        if d is None or "key" not in sop:
            return None
        return {"op": "link_to", "k": sop["key"], "d": d}
    if op == "write":
        o = {"op": "write" if "key" in sop else "write_hash", "d": sop["data"]}
        if "key" in sop:
            o["k"] = sop["key"]
        if sop.get("reject"):
            o["reject"] = True
        return o
    if op == "read":
        if "key" in sop:
            return {"op": "read", "k": sop["key"]}
        return {"op": "read_hash", "d": sop["sri"][0]["d"]}
    if op in ("metadata", "remove"):
        return {"op": op, "k": sop["key"]}
    if op in ("exists", "remove_hash"):
        return {"op": op, "d": sop["sri"][0]["d"]}
    if op == "list":
        return {"op": "list"}
    if op == "remove_fully":
        return {"op": "remove_fully", "k": sop["key"]}
    if op == "clear":
        return {"op": "clear"}
    return None


def l2_events(events):
    """events of ONE scenario run -> L2 trace lines, or None if the run is outside the model"""
    out = []
    ext = {}
    for e in events:
        ev = e["ev"]
        if ev == "begin":
            ext = {x["id"]: x["b"] for x in e["snap"].get("ext", [])}
            out.append({"ev": "begin", "snap": e["snap"]})
        elif ev == "spawn":
            if e["op"]["op"] not in MODELLED:
                return None
            o = abstract_op(e["op"], ext)
            if o is None:
                return None
            out.append({"ev": "spawn", "p": e["p"], "o": o})
        elif ev == "sys":
            cls = event_class(e)
            if cls == "append_short" or e.get("action") == "short" and e["area"] == "index":
                return None
            if "tmpfull" not in e:
                return None
            out.append({"ev": "sys", "p": e["p"], "cls": cls, "tmpfull": e["tmpfull"], "snap": e["snap"],
                        "name": e["name"], "area": e["area"]})
        elif ev == "result":
            r = e["res"]
            out.append({"ev": "result", "p": e["p"], "ok": bool(isinstance(r, dict) and r.get("ok"))})
        elif ev == "crash":
            out.append({"ev": "crash", "snap": e["snap"]})
        elif ev == "end":
            out.append({"ev": "end"})
        elif ev in ("hang", "outside"):
            return None
    return out


def collect_ids(lines):
    keys, datas, procs = set(), set(), set()

    def snap(s):
        for b in s["buckets"]:
            keys.add(b["key"])
            for ln in b["lines"]:
                if ln["t"] == "rec":
                    keys.add(ln["r"]["key"])
                    for h in ln["r"]["sri"]:
                        datas.add(h["d"])
        for c in s["store"]:
            datas.add(c["d"])
    for e in lines:
        if "snap" in e:
            snap(e["snap"])
        if e["ev"] == "spawn":
            procs.add(e["p"])
            if "k" in e["o"]:
                keys.add(e["o"]["k"])
            if "d" in e["o"]:
                datas.add(e["o"]["d"])
    return sorted(keys), sorted(datas), sorted(procs)


def validate_l2(runs, base, workdir):
    """runs: list of per-scenario L2 line lists.  Returns (info, drifts) where drifts lists
    (run index, line, event) of runs TLC could not follow."""
    drifts = []
    todo = [(i, r) for i, r in enumerate(runs) if r]
    states = trans = 0
    path = base + ".l2.ndjson"
    guard = 0
    while todo and guard < 25:
        guard += 1
        lines = [e for _, r in todo for e in r]
        keys, datas, procs = collect_ids(lines)
        with open(path, "w") as f:
            f.write(json.dumps({"ev": "init", "keys": keys or ["k"], "datas": datas or ["d"],
                                "procs": procs or [0], "ops": []}) + "\n")
            for e in lines:
                f.write(json.dumps(e) + "\n")
        res = run_tlc("TraceFS2", "TraceFS2.cfg", workdir, env={"TRACE": path}, workers=1, timeout=1800, deque=True)
        out = res["out"]
        states += res["distinct"]
        trans += res["generated"]
        if '"ACCEPTED"' in out and "Error:" not in out:
            break
        m = re.search(r'"REJECTED", (\d+)', out)
        if not m:
            raise ToolError("TLC failed on L2 trace %s:\n%s" % (path, out[-2500:]))
        line = int(m.group(1)) - 2          # index into `lines`
        # find the run the line belongs to, record it, and go on with the runs after it
        pos = 0
        for j, (i, r) in enumerate(todo):
            if pos + len(r) > line:
                ev = dict(lines[line])
                ev.pop("snap", None)
                dpath = "%s.l2.drift%d.ndjson" % (base, i)
                with open(dpath, "w") as df:
                    for x in r:
                        df.write(json.dumps(x) + "\n")
                drifts.append({"run": i, "event": ev, "at": line - pos, "file": dpath})
                todo = todo[j + 1:]
                break
            pos += len(r)
        else:
            break
    return {"states": states, "transitions": trans, "trace": path, "runs": len([r for r in runs if r])}, drifts


# a step that does not fit the specification's program order is itself a violation when it is
# one of these (everything else is model drift: reported, not gating)
def drift_props(ev):
    cls = ev.get("cls")
    if ev.get("ev") == "sys":
        if cls == "append":
            return ["C04", "C07"]      # an index record written where the specification has none:
                                       # before the content was published, or a second one
        if cls == "publish":
            return ["C03"]             # a rename into the content area from a temp file that is
                                       # not complete, or at a point where nothing is to publish
        if cls in ("unlink_content", "unlink_bucket"):
            return ["C09"]
    return []
