// cdrv: NDJSON co-process driver for the cacache public API.
// One request line = one public call; one response line = its outcome.
// The driver contains no oracle logic: it reports what the library returned.
//
// Build flavours (exactly one): fl-sync | fl-plain (blocking API without mmap) | fl-asyncstd | fl-tokio.
#![allow(clippy::all)]
#![allow(unexpected_cfgs)]

use serde_json::{json, Map, Value};
use sha2::{Digest, Sha256};
use std::collections::HashMap;
use std::io::{BufRead, Read, Write};
use std::panic::{catch_unwind, AssertUnwindSafe};
use std::path::PathBuf;
use std::time::{SystemTime, UNIX_EPOCH};

use cacache::{Algorithm, Integrity, WriteOpts};

#[cfg(feature = "fl-asyncstd")]
use futures::io::{AsyncReadExt, AsyncWriteExt};
#[cfg(feature = "fl-tokio")]
use tokio::io::{AsyncReadExt, AsyncWriteExt};

#[cfg(feature = "sync-code")]
const FLAVOUR: &str = "sync";
#[cfg(feature = "fl-asyncstd")]
const FLAVOUR: &str = "asyncstd";
#[cfg(feature = "fl-tokio")]
const FLAVOUR: &str = "tokio";

#[cfg(feature = "fl-tokio")]
thread_local! {
    static RT: tokio::runtime::Runtime = tokio::runtime::Builder::new_multi_thread()
        .worker_threads(2)
        .enable_all()
        .build()
        .unwrap();
}

#[cfg(feature = "fl-asyncstd")]
fn block_on<F: std::future::Future>(f: F) -> F::Output {
    async_std::task::block_on(f)
}
#[cfg(feature = "fl-tokio")]
fn block_on<F: std::future::Future>(f: F) -> F::Output {
    RT.with(|rt| rt.block_on(f))
}

// A source that hands out at most `step` bytes per read (a socket / pipe like reader)
struct Trickle {
    data: Vec<u8>,
    pos: usize,
    step: usize,
}

impl std::io::Read for Trickle {
    fn read(&mut self, buf: &mut [u8]) -> std::io::Result<usize> {
        let n = self.step.min(buf.len()).min(self.data.len() - self.pos);
        buf[..n].copy_from_slice(&self.data[self.pos..self.pos + n]);
        self.pos += n;
        Ok(n)
    }
}

#[cfg(feature = "fl-asyncstd")]
impl futures::io::AsyncRead for Trickle {
    fn poll_read(
        mut self: std::pin::Pin<&mut Self>,
        _cx: &mut std::task::Context<'_>,
        buf: &mut [u8],
    ) -> std::task::Poll<std::io::Result<usize>> {
        std::task::Poll::Ready(std::io::Read::read(&mut *self, buf))
    }
}

#[cfg(feature = "fl-tokio")]
impl tokio::io::AsyncRead for Trickle {
    fn poll_read(
        mut self: std::pin::Pin<&mut Self>,
        _cx: &mut std::task::Context<'_>,
        buf: &mut tokio::io::ReadBuf<'_>,
    ) -> std::task::Poll<std::io::Result<()>> {
        let n = self.step.min(buf.remaining()).min(self.data.len() - self.pos);
        let (a, b) = (self.pos, self.pos + n);
        buf.put_slice(&self.data[a..b]);
        self.pos += n;
        std::task::Poll::Ready(Ok(()))
    }
}

enum Handle {
    SyncWriter(cacache::SyncWriter),
    SyncReader(cacache::SyncReader),
    SyncLinker(cacache::SyncToLinker),
    #[cfg(not(feature = "sync-code"))]
    Writer(cacache::Writer),
    #[cfg(not(feature = "sync-code"))]
    Reader(cacache::Reader),
    #[cfg(not(feature = "sync-code"))]
    Linker(cacache::ToLinker),
}

type R = Result<Value, Value>;

fn now_ms() -> u128 {
    SystemTime::now()
        .duration_since(UNIX_EPOCH)
        .unwrap()
        .as_millis()
}

fn gen_bytes(seed: u64, len: usize) -> Vec<u8> {
    let mut out = Vec::with_capacity(len + 32);
    let mut i: u64 = 0;
    while out.len() < len {
        let mut h = Sha256::new();
        h.update(seed.to_le_bytes());
        h.update(i.to_le_bytes());
        out.extend_from_slice(&h.finalize());
        i += 1;
    }
    out.truncate(len);
    out
}

fn get_data(v: &Value) -> Vec<u8> {
    if let Some(h) = v.get("hex").and_then(|x| x.as_str()) {
        return hex::decode(h).expect("bad hex in request");
    }
    if let Some(g) = v.get("gen").and_then(|x| x.as_array()) {
        let seed = g[0].as_u64().unwrap();
        let len = g[1].as_u64().unwrap() as usize;
        let mut d = gen_bytes(seed, len);
        // optional slice [seed, len, from, to]
        if g.len() >= 4 {
            let from = g[2].as_u64().unwrap() as usize;
            let to = g[3].as_u64().unwrap() as usize;
            d = d[from..to].to_vec();
        }
        return d;
    }
    if let Some(p) = v.get("file").and_then(|x| x.as_str()) {
        return std::fs::read(p).expect("cannot read data file of request");
    }
    panic!("driver: request has no data");
}

fn bytes_val(b: &[u8]) -> Value {
    let mut h = Sha256::new();
    h.update(b);
    let mut m = Map::new();
    m.insert("len".into(), json!(b.len()));
    m.insert("sha256".into(), json!(hex::encode(h.finalize())));
    if b.len() <= 256 {
        m.insert("hex".into(), json!(hex::encode(b)));
    }
    Value::Object(m)
}

fn io_err_val(e: &std::io::Error) -> Value {
    json!({"kind": format!("{:?}", e.kind()), "os": e.raw_os_error(), "text": e.to_string()})
}

fn err_val(e: &cacache::Error) -> Value {
    match e {
        cacache::Error::EntryNotFound(_, k) => json!({"variant":"EntryNotFound","key":k}),
        cacache::Error::SizeMismatch(a, b) => json!({"variant":"SizeMismatch","wanted":a,"actual":b}),
        cacache::Error::IoError(ioe, msg) => {
            json!({"variant":"IoError","io":io_err_val(ioe),"msg":msg})
        }
        cacache::Error::SerdeError(se, msg) => {
            json!({"variant":"SerdeError","text":se.to_string(),"msg":msg})
        }
        cacache::Error::IntegrityError(ie) => match ie {
            ssri::Error::IntegrityCheckError(w, a) => {
                json!({"variant":"IntegrityError","sub":"IntegrityCheckError","wanted":w.to_string(),"actual":a.to_string()})
            }
            other => json!({"variant":"IntegrityError","sub":"Other","text":other.to_string()}),
        },
    }
}

// Errors returned by the library stay ALIVE until the next request is executed (in one-shot
// mode: until the process exits, as for a caller that prints the error and exits): whatever
// an error value owns - a temp file, a descriptor - is part of the observable state after a
// failed call.
static HELD: std::sync::Mutex<Vec<cacache::Error>> = std::sync::Mutex::new(Vec::new());

fn hold(e: cacache::Error) -> Value {
    let v = err_val(&e);
    if let Ok(mut h) = HELD.lock() {
        h.push(e);
    }
    v
}

fn release_held() {
    if let Ok(mut h) = HELD.lock() {
        h.clear();
    }
}

// RemoveOpts the way a caller may build it: the setter called once, or several times with the
// last call deciding (req.resets = n: n earlier calls with alternating other values)
fn remove_opts(req: &Value, fully: bool) -> cacache::RemoveOpts {
    let n = req.get("resets").and_then(|x| x.as_u64()).unwrap_or(0);
    let mut o = cacache::RemoveOpts::new();
    for i in 0..n {
        o = o.remove_fully(if (n - i) % 2 == 1 { !fully } else { fully });
    }
    o.remove_fully(fully)
}

fn path_of_hex(h: &str) -> PathBuf {
    use std::os::unix::ffi::OsStringExt;
    PathBuf::from(std::ffi::OsString::from_vec(hex::decode(h).expect("driver: bad path hex")))
}

fn raw_io(e: &std::io::Error) -> Value {
    json!({"variant":"RawIo","io":io_err_val(e)})
}

fn meta_val(m: &cacache::Metadata) -> Value {
    json!({
        "key": m.key,
        "integrity": m.integrity.to_string(),
        "time": m.time.to_string(),
        "size": m.size,
        "metadata": m.metadata,
        "raw_metadata": m.raw_metadata.as_ref().map(hex::encode),
    })
}

fn lift<T>(r: cacache::Result<T>, f: impl FnOnce(T) -> Value) -> R {
    match r {
        Ok(v) => Ok(f(v)),
        Err(e) => Err(hold(e)),
    }
}

fn s<'a>(req: &'a Value, k: &str) -> &'a str {
    req.get(k)
        .and_then(|x| x.as_str())
        .unwrap_or_else(|| panic!("driver: request lacks string field {k}"))
}

fn sri_of(req: &Value, k: &str) -> Integrity {
    s(req, k).parse::<Integrity>().expect("driver: bad integrity string in request")
}

fn algo_of(v: Option<&Value>) -> Option<Algorithm> {
    v.and_then(|x| x.as_str()).map(|a| a.parse::<Algorithm>().expect("driver: bad algorithm"))
}

fn opts_of(v: Option<&Value>) -> WriteOpts {
    // {"decoy": {...}}: the same setters called EARLIER with other values - the last call of a
    // setter decides, so the decoy must leave no trace
    let o = match v.and_then(|x| x.get("decoy")) {
        Some(d) => apply_opts(WriteOpts::new(), Some(d)),
        None => WriteOpts::new(),
    };
    apply_opts(o, v)
}

fn apply_opts(o: WriteOpts, v: Option<&Value>) -> WriteOpts {
    let mut o = o;
    let v = match v {
        Some(v) if v.is_object() => v,
        _ => return o,
    };
    if let Some(a) = algo_of(v.get("algo")) {
        o = o.algorithm(a);
    }
    if let Some(n) = v.get("size").and_then(|x| x.as_u64()) {
        o = o.size(n as usize);
    }
    if let Some(t) = v.get("time").and_then(|x| x.as_str()) {
        o = o.time(t.parse::<u128>().expect("driver: bad time"));
    }
    if let Some(m) = v.get("meta") {
        // {"meta": {"v": <json>}} so that an explicit null can be told from absent
        if let Some(inner) = m.get("v") {
            o = o.metadata(inner.clone());
        } else if let Some(n) = m.get("rep").and_then(|x| x.as_u64()) {
            // {"rep": n}: the value {"big": "MMM...M" (n times)} - too long for an argument vector
            o = o.metadata(json!({ "big": "M".repeat(n as usize) }));
        } else if let Some(n) = m.get("nest").and_then(|x| x.as_u64()) {
            // a value nested deeper than a JSON parser's recursion limit cannot travel in the
            // request: {"nest": n, "obj": bool, "leaf": v} is built here, iteratively
            let mut val = m.get("leaf").cloned().unwrap_or(Value::Null);
            let obj = m.get("obj").and_then(|x| x.as_bool()).unwrap_or(false);
            for _ in 0..n {
                val = if obj { json!({ "a": val }) } else { json!([val]) };
            }
            // {"note": s}: the nested value sits behind a string, as {"note": s, "tree": <nested>}
            if let Some(note) = m.get("note").and_then(|x| x.as_str()) {
                val = json!({ "note": note, "tree": val });
            }
            o = o.metadata(val);
        }
    }
    if let Some(r) = v.get("raw").and_then(|x| x.as_str()) {
        o = o.raw_metadata(hex::decode(r).expect("driver: bad raw hex"));
    }
    if let Some(i) = v.get("sri").and_then(|x| x.as_str()) {
        o = o.integrity(i.parse::<Integrity>().expect("driver: bad sri"));
    }
    o
}

struct Drv {
    handles: HashMap<u64, Handle>,
    next: u64,
}

#[cfg(feature = "sync-code")]
macro_rules! asy {
    ($e:expr) => {
        Err(json!({"variant":"Driver","text":"async entry point not available in sync flavour"}))
    };
}
#[cfg(not(feature = "sync-code"))]
macro_rules! asy {
    ($e:expr) => {
        $e
    };
}

impl Drv {
    fn put(&mut self, h: Handle) -> Value {
        self.next += 1;
        self.handles.insert(self.next, h);
        json!({"h": self.next})
    }

    fn call(&mut self, req: &Value) -> R {
        let op = s(req, "op");
        // ("cache_hex" / "dir_hex": a path that is not valid UTF-8 cannot travel as a JSON string)
        let cache = match req.get("cache_hex").and_then(|x| x.as_str()) {
            Some(h) => path_of_hex(h),
            None => PathBuf::from(req.get("cache").and_then(|x| x.as_str()).unwrap_or("")),
        };
        let isync = op.ends_with("_sync") || req.get("sync").and_then(|x| x.as_bool()).unwrap_or(false);
        let _ = isync;
        match op {
            // ------------------------------------------------ one-shot writes
            "write_sync" => lift(cacache::write_sync(&cache, s(req, "key"), get_data(&req["data"])), |i| json!(i.to_string())),
            "write_sync_with_algo" => lift(
                cacache::write_sync_with_algo(algo_of(req.get("algo")).unwrap(), &cache, s(req, "key"), get_data(&req["data"])),
                |i| json!(i.to_string()),
            ),
            "write_hash_sync" => lift(cacache::write_hash_sync(&cache, get_data(&req["data"])), |i| json!(i.to_string())),
            "write_hash_sync_with_algo" => lift(
                cacache::write_hash_sync_with_algo(algo_of(req.get("algo")).unwrap(), &cache, get_data(&req["data"])),
                |i| json!(i.to_string()),
            ),
            "read_sync" => lift(cacache::read_sync(&cache, s(req, "key")), |b| bytes_val(&b)),
            "read_hash_sync" => lift(cacache::read_hash_sync(&cache, &sri_of(req, "sri")), |b| bytes_val(&b)),
            "copy_sync" => lift(cacache::copy_sync(&cache, s(req, "key"), s(req, "to")), |n| json!(n)),
            "copy_unchecked_sync" => lift(cacache::copy_unchecked_sync(&cache, s(req, "key"), s(req, "to")), |n| json!(n)),
            "copy_hash_sync" => lift(cacache::copy_hash_sync(&cache, &sri_of(req, "sri"), s(req, "to")), |n| json!(n)),
            "copy_hash_unchecked_sync" => lift(cacache::copy_hash_unchecked_sync(&cache, &sri_of(req, "sri"), s(req, "to")), |n| json!(n)),
            "reflink_sync" => lift(cacache::reflink_sync(&cache, s(req, "key"), s(req, "to")), |_| Value::Null),
            "reflink_unchecked_sync" => lift(cacache::reflink_unchecked_sync(&cache, s(req, "key"), s(req, "to")), |_| Value::Null),
            "reflink_hash_sync" => lift(cacache::reflink_hash_sync(&cache, &sri_of(req, "sri"), s(req, "to")), |_| Value::Null),
            "reflink_hash_unchecked_sync" => lift(cacache::reflink_hash_unchecked_sync(&cache, &sri_of(req, "sri"), s(req, "to")), |_| Value::Null),
            "hard_link_sync" => lift(cacache::hard_link_sync(&cache, s(req, "key"), s(req, "to")), |_| Value::Null),
            "hard_link_unchecked_sync" => lift(cacache::hard_link_unchecked_sync(&cache, s(req, "key"), s(req, "to")), |_| Value::Null),
            "hard_link_hash_sync" => lift(cacache::hard_link_hash_sync(&cache, &sri_of(req, "sri"), s(req, "to")), |_| Value::Null),
            "hard_link_hash_unchecked_sync" => lift(cacache::hard_link_hash_unchecked_sync(&cache, &sri_of(req, "sri"), s(req, "to")), |_| Value::Null),
            "metadata_sync" => lift(cacache::metadata_sync(&cache, s(req, "key")), |m| m.as_ref().map(meta_val).unwrap_or(Value::Null)),
            "exists_sync" => Ok(json!(cacache::exists_sync(&cache, &sri_of(req, "sri")))),
            "remove_sync" => lift(cacache::remove_sync(&cache, s(req, "key")), |_| Value::Null),
            "remove_hash_sync" => lift(cacache::remove_hash_sync(&cache, &sri_of(req, "sri")), |_| Value::Null),
            "clear_sync" => lift(cacache::clear_sync(&cache), |_| Value::Null),
            "remove_fully_sync" => lift(
                remove_opts(req, true).remove_sync(&cache, s(req, "key")),
                |_| Value::Null,
            ),
            "remove_opts_sync" => lift(
                remove_opts(req, false).remove_sync(&cache, s(req, "key")),
                |_| Value::Null,
            ),
            "list_sync" => {
                let items: Vec<Value> = cacache::list_sync(&cache)
                    .map(|r| match r {
                        Ok(m) => json!({"ok": meta_val(&m)}),
                        Err(e) => json!({"err": err_val(&e)}),
                    })
                    .collect();
                Ok(Value::Array(items))
            }
            "index_ls" => {
                let items: Vec<Value> = cacache::index::ls(&cache)
                    .map(|r| match r {
                        Ok(m) => json!({"ok": meta_val(&m)}),
                        Err(e) => json!({"err": err_val(&e)}),
                    })
                    .collect();
                Ok(Value::Array(items))
            }
            "index_insert" => lift(cacache::index::insert(&cache, s(req, "key"), opts_of(req.get("opts"))), |i| json!(i.to_string())),
            "index_delete" => lift(cacache::index::delete(&cache, s(req, "key")), |_| Value::Null),
            "index_find" => lift(cacache::index::find(&cache, s(req, "key")), |m| m.as_ref().map(meta_val).unwrap_or(Value::Null)),
            "link_to_sync" => lift(cacache::link_to_sync(&cache, s(req, "key"), s(req, "target")), |i| json!(i.to_string())),
            "link_to_hash_sync" => lift(cacache::link_to_hash_sync(&cache, s(req, "target")), |i| json!(i.to_string())),

            // ------------------------------------------------ async one-shots
            "write" => asy!({
                lift(block_on(cacache::write(&cache, s(req, "key"), get_data(&req["data"]))), |i| json!(i.to_string()))
            }),
            "write_with_algo" => asy!({
                lift(
                    block_on(cacache::write_with_algo(algo_of(req.get("algo")).unwrap(), &cache, s(req, "key"), get_data(&req["data"]))),
                    |i| json!(i.to_string()),
                )
            }),
            "write_hash" => asy!({
                lift(block_on(cacache::write_hash(&cache, get_data(&req["data"]))), |i| json!(i.to_string()))
            }),
            "write_hash_with_algo" => asy!({
                lift(
                    block_on(cacache::write_hash_with_algo(algo_of(req.get("algo")).unwrap(), &cache, get_data(&req["data"]))),
                    |i| json!(i.to_string()),
                )
            }),
            "read" => asy!({
                lift(block_on(cacache::read(&cache, s(req, "key"))), |b| bytes_val(&b))
            }),
            "read_hash" => asy!({
                lift(block_on(cacache::read_hash(&cache, &sri_of(req, "sri"))), |b| bytes_val(&b))
            }),
            "copy" => asy!({
                lift(block_on(cacache::copy(&cache, s(req, "key"), s(req, "to"))), |n| json!(n))
            }),
            "copy_unchecked" => asy!({
                lift(block_on(cacache::copy_unchecked(&cache, s(req, "key"), s(req, "to"))), |n| json!(n))
            }),
            "copy_hash" => asy!({
                lift(block_on(cacache::copy_hash(&cache, &sri_of(req, "sri"), s(req, "to"))), |n| json!(n))
            }),
            "copy_hash_unchecked" => asy!({
                lift(block_on(cacache::copy_hash_unchecked(&cache, &sri_of(req, "sri"), s(req, "to"))), |n| json!(n))
            }),
            "reflink" => asy!({
                lift(block_on(cacache::reflink(&cache, s(req, "key"), s(req, "to"))), |_| Value::Null)
            }),
            "reflink_unchecked" => asy!({
                lift(block_on(cacache::reflink_unchecked(&cache, s(req, "key"), s(req, "to"))), |_| Value::Null)
            }),
            "reflink_hash" => asy!({
                lift(block_on(cacache::reflink_hash(&cache, &sri_of(req, "sri"), s(req, "to"))), |_| Value::Null)
            }),
            "hard_link" => asy!({
                lift(block_on(cacache::hard_link(&cache, s(req, "key"), s(req, "to"))), |_| Value::Null)
            }),
            "metadata" => asy!({
                lift(block_on(cacache::metadata(&cache, s(req, "key"))), |m| m.as_ref().map(meta_val).unwrap_or(Value::Null))
            }),
            "exists" => asy!({
                Ok(json!(block_on(cacache::exists(&cache, &sri_of(req, "sri")))))
            }),
            "remove" => asy!({
                lift(block_on(cacache::remove(&cache, s(req, "key"))), |_| Value::Null)
            }),
            "remove_hash" => asy!({
                lift(block_on(cacache::remove_hash(&cache, &sri_of(req, "sri"))), |_| Value::Null)
            }),
            "clear" => asy!({
                lift(block_on(cacache::clear(&cache)), |_| Value::Null)
            }),
            "remove_fully" => asy!({
                lift(
                    block_on(remove_opts(req, true).remove(&cache, s(req, "key"))),
                    |_| Value::Null,
                )
            }),
            "remove_opts" => asy!({
                lift(
                    block_on(remove_opts(req, false).remove(&cache, s(req, "key"))),
                    |_| Value::Null,
                )
            }),
            "index_insert_async" => asy!({
                lift(
                    block_on(cacache::index::insert_async(&cache, s(req, "key"), opts_of(req.get("opts")))),
                    |i| json!(i.to_string()),
                )
            }),
            "index_delete_async" => asy!({
                lift(block_on(cacache::index::delete_async(&cache, s(req, "key"))), |_| Value::Null)
            }),
            "index_find_async" => asy!({
                lift(block_on(cacache::index::find_async(&cache, s(req, "key"))), |m| m.as_ref().map(meta_val).unwrap_or(Value::Null))
            }),
            "link_to" => asy!({
                lift(block_on(cacache::link_to(&cache, s(req, "key"), s(req, "target"))), |i| json!(i.to_string()))
            }),
            "link_to_hash" => asy!({
                lift(block_on(cacache::link_to_hash(&cache, s(req, "target"))), |i| json!(i.to_string()))
            }),

            // ------------------------------------------------ writer handles
            "open_writer" => {
                let sync = req["sync"].as_bool().unwrap_or(true);
                let via = req.get("via").and_then(|x| x.as_str()).unwrap_or("opts");
                let key = req.get("key").and_then(|x| x.as_str());
                if sync {
                    let r = match (via, key) {
                        ("create", Some(k)) => cacache::SyncWriter::create(&cache, k),
                        ("create_with_algo", Some(k)) => {
                            cacache::SyncWriter::create_with_algo(algo_of(req.get("algo")).unwrap(), &cache, k)
                        }
                        (_, Some(k)) => opts_of(req.get("opts")).open_sync(&cache, k),
                        (_, None) => opts_of(req.get("opts")).open_hash_sync(&cache),
                    };
                    match r {
                        Ok(w) => Ok(self.put(Handle::SyncWriter(w))),
                        Err(e) => Err(hold(e)),
                    }
                } else {
                    asy!({
                        let r = match (via, key) {
                            ("create", Some(k)) => block_on(cacache::Writer::create(&cache, k)),
                            ("create_with_algo", Some(k)) => {
                                block_on(cacache::Writer::create_with_algo(algo_of(req.get("algo")).unwrap(), &cache, k))
                            }
                            (_, Some(k)) => block_on(opts_of(req.get("opts")).open(&cache, k)),
                            (_, None) => block_on(opts_of(req.get("opts")).open_hash(&cache)),
                        };
                        match r {
                            Ok(w) => Ok(self.put(Handle::Writer(w))),
                            Err(e) => Err(hold(e)),
                        }
                    })
                }
            }
            "w_write" => {
                let h = req["h"].as_u64().unwrap();
                let data = get_data(&req["data"]);
                let all = req.get("all").and_then(|x| x.as_bool()).unwrap_or(true);
                match self.handles.get_mut(&h) {
                    Some(Handle::SyncWriter(w)) => {
                        if all {
                            w.write_all(&data).map(|_| json!(data.len())).map_err(|e| raw_io(&e))
                        } else {
                            w.write(&data).map(|n| json!(n)).map_err(|e| raw_io(&e))
                        }
                    }
                    #[cfg(not(feature = "sync-code"))]
                    Some(Handle::Writer(w)) => {
                        if all {
                            block_on(w.write_all(&data)).map(|_| json!(data.len())).map_err(|e| raw_io(&e))
                        } else {
                            block_on(w.write(&data)).map(|n| json!(n)).map_err(|e| raw_io(&e))
                        }
                    }
                    _ => Err(json!({"variant":"Driver","text":"no such writer"})),
                }
            }
            // Write::write_vectored / AsyncWriteExt::write_vectored with several buffers
            "w_write_vectored" => {
                let h = req["h"].as_u64().unwrap();
                let parts: Vec<Vec<u8>> = req["datas"].as_array().unwrap().iter().map(get_data).collect();
                let slices: Vec<std::io::IoSlice> = parts.iter().map(|p| std::io::IoSlice::new(p)).collect();
                match self.handles.get_mut(&h) {
                    Some(Handle::SyncWriter(w)) => w.write_vectored(&slices).map(|n| json!(n)).map_err(|e| raw_io(&e)),
                    #[cfg(not(feature = "sync-code"))]
                    Some(Handle::Writer(w)) => block_on(w.write_vectored(&slices)).map(|n| json!(n)).map_err(|e| raw_io(&e)),
                    _ => Err(json!({"variant":"Driver","text":"no such writer"})),
                }
            }
            // io::copy (std / futures / tokio) from a source that delivers `step` bytes per read
            "w_copy_from" => {
                let h = req["h"].as_u64().unwrap();
                let data = get_data(&req["data"]);
                let step = req["step"].as_u64().unwrap_or(1024) as usize;
                let mut src = Trickle { data, pos: 0, step: step.max(1) };
                match self.handles.get_mut(&h) {
                    Some(Handle::SyncWriter(w)) => std::io::copy(&mut src, w).map(|n| json!(n)).map_err(|e| raw_io(&e)),
                    #[cfg(feature = "fl-asyncstd")]
                    Some(Handle::Writer(w)) => block_on(futures::io::copy(&mut src, w)).map(|n| json!(n)).map_err(|e| raw_io(&e)),
                    #[cfg(feature = "fl-tokio")]
                    Some(Handle::Writer(w)) => block_on(tokio::io::copy(&mut src, w)).map(|n| json!(n)).map_err(|e| raw_io(&e)),
                    _ => Err(json!({"variant":"Driver","text":"no such writer"})),
                }
            }
            "w_flush" => {
                let h = req["h"].as_u64().unwrap();
                match self.handles.get_mut(&h) {
                    Some(Handle::SyncWriter(w)) => w.flush().map(|_| Value::Null).map_err(|e| raw_io(&e)),
                    #[cfg(not(feature = "sync-code"))]
                    Some(Handle::Writer(w)) => block_on(w.flush()).map(|_| Value::Null).map_err(|e| raw_io(&e)),
                    _ => Err(json!({"variant":"Driver","text":"no such writer"})),
                }
            }
            // AsyncWrite close()/shutdown() without commit
            "w_close" => {
                let h = req["h"].as_u64().unwrap();
                match self.handles.get_mut(&h) {
                    #[cfg(feature = "fl-asyncstd")]
                    Some(Handle::Writer(w)) => block_on(w.close()).map(|_| Value::Null).map_err(|e| raw_io(&e)),
                    #[cfg(feature = "fl-tokio")]
                    Some(Handle::Writer(w)) => block_on(w.shutdown()).map(|_| Value::Null).map_err(|e| raw_io(&e)),
                    _ => Err(json!({"variant":"Driver","text":"no such async writer"})),
                }
            }
            // start a write, poll it once (the blocking task is now in flight), drop everything
            "w_poll_write_drop" => {
                let h = req["h"].as_u64().unwrap();
                let data = get_data(&req["data"]);
                match self.handles.remove(&h) {
                    #[cfg(not(feature = "sync-code"))]
                    Some(Handle::Writer(mut w)) => {
                        let ready = block_on(async {
                            let r = {
                                let fut = w.write(&data);
                                futures::pin_mut!(fut);
                                futures::poll!(fut).is_ready()
                            };
                            drop(w);
                            r
                        });
                        Ok(json!({"ready": ready}))
                    }
                    Some(other) => {
                        self.handles.insert(h, other);
                        Err(json!({"variant":"Driver","text":"not an async writer"}))
                    }
                    None => Err(json!({"variant":"Driver","text":"no such writer"})),
                }
            }
            // a write future polled once and then DROPPED (select!/timeout style cancellation);
            // the writer stays in use: whatever the in-flight task does must stay consistent
            // with what the writer later reports
            "w_write_cancel" => {
                let h = req["h"].as_u64().unwrap();
                let data = get_data(&req["data"]);
                match self.handles.get_mut(&h) {
                    #[cfg(not(feature = "sync-code"))]
                    Some(Handle::Writer(w)) => {
                        let r: Option<std::io::Result<usize>> = block_on(async {
                            let fut = w.write(&data);
                            futures::pin_mut!(fut);
                            match futures::poll!(fut) {
                                std::task::Poll::Ready(x) => Some(x),
                                std::task::Poll::Pending => None,
                            }
                        });
                        match r {
                            None => Ok(json!({"ready": false})),
                            Some(Ok(n)) => Ok(json!({"ready": true, "n": n})),
                            Some(Err(e)) => Err(raw_io(&e)),
                        }
                    }
                    Some(_) => Err(json!({"variant":"Driver","text":"not an async writer"})),
                    None => Err(json!({"variant":"Driver","text":"no such writer"})),
                }
            }
            // fill the file system holding `dir` for real (a filler file grown until ENOSPC, then
            // shortened so that `leave` bytes stay free) / free it again
            "fs_fill" => {
                use std::io::Write as _;
                let dir = std::path::PathBuf::from(s(req, "dir"));
                let leave = req.get("leave").and_then(|x| x.as_u64()).unwrap_or(0);
                let p = dir.join("filler.bin");
                let mut f = std::fs::OpenOptions::new().create(true).append(true).open(&p).map_err(|e| raw_io(&e))?;
                let block = vec![0xA5u8; 64 * 1024];
                let mut total: u64 = 0;
                let mut chunk = block.len();
                loop {
                    match f.write(&block[..chunk]) {
                        Ok(0) => break,
                        Ok(n) => total += n as u64,
                        Err(_) => {
                            if chunk <= 512 { break; }
                            chunk /= 2;
                        }
                    }
                }
                let _ = f.set_len(total.saturating_sub(leave));
                Ok(json!({"filled": total.saturating_sub(leave)}))
            }
            "fs_free" => {
                let dir = std::path::PathBuf::from(s(req, "dir"));
                let _ = std::fs::remove_file(dir.join("filler.bin"));
                Ok(Value::Null)
            }
            "w_commit" => {
                let h = req["h"].as_u64().unwrap();
                match self.handles.remove(&h) {
                    Some(Handle::SyncWriter(w)) => lift(w.commit(), |i| json!(i.to_string())),
                    #[cfg(not(feature = "sync-code"))]
                    Some(Handle::Writer(w)) => lift(block_on(w.commit()), |i| json!(i.to_string())),
                    _ => Err(json!({"variant":"Driver","text":"no such writer"})),
                }
            }
            "h_drop" => {
                let h = req["h"].as_u64().unwrap();
                match self.handles.remove(&h) {
                    Some(x) => {
                        drop(x);
                        Ok(Value::Null)
                    }
                    None => Err(json!({"variant":"Driver","text":"no such handle"})),
                }
            }

            // ------------------------------------------------ reader handles
            "open_reader" => {
                let sync = req["sync"].as_bool().unwrap_or(true);
                let key = req.get("key").and_then(|x| x.as_str());
                if sync {
                    let r = match key {
                        Some(k) => cacache::SyncReader::open(&cache, k),
                        None => cacache::SyncReader::open_hash(&cache, sri_of(req, "sri")),
                    };
                    match r {
                        Ok(x) => Ok(self.put(Handle::SyncReader(x))),
                        Err(e) => Err(hold(e)),
                    }
                } else {
                    asy!({
                        let r = match key {
                            Some(k) => block_on(cacache::Reader::open(&cache, k)),
                            None => block_on(cacache::Reader::open_hash(&cache, sri_of(req, "sri"))),
                        };
                        match r {
                            Ok(x) => Ok(self.put(Handle::Reader(x))),
                            Err(e) => Err(hold(e)),
                        }
                    })
                }
            }
            // one read() call with a buffer of n bytes - or, with "split": [a, b, ..], one
            // read_vectored() call on that buffer cut into pieces of those lengths (some may be 0)
            "r_read" | "l_read" => {
                let h = req["h"].as_u64().unwrap();
                let n = req["n"].as_u64().unwrap() as usize;
                let mut buf = vec![0u8; n];
                let split: Vec<usize> = req
                    .get("split")
                    .and_then(|x| x.as_array())
                    .map(|a| a.iter().map(|v| v.as_u64().unwrap_or(0) as usize).collect())
                    .unwrap_or_default();
                let r = if split.is_empty() {
                    match self.handles.get_mut(&h) {
                        Some(Handle::SyncReader(x)) => x.read(&mut buf),
                        Some(Handle::SyncLinker(x)) => x.read(&mut buf),
                        #[cfg(not(feature = "sync-code"))]
                        Some(Handle::Reader(x)) => block_on(x.read(&mut buf)),
                        #[cfg(not(feature = "sync-code"))]
                        Some(Handle::Linker(x)) => block_on(x.read(&mut buf)),
                        _ => return Err(json!({"variant":"Driver","text":"no such reader"})),
                    }
                } else {
                    let mut rest: &mut [u8] = &mut buf;
                    let mut parts: Vec<std::io::IoSliceMut> = Vec::new();
                    for len in &split {
                        let m = (*len).min(rest.len());
                        let (a, b) = std::mem::take(&mut rest).split_at_mut(m);
                        parts.push(std::io::IoSliceMut::new(a));
                        rest = b;
                    }
                    match self.handles.get_mut(&h) {
                        Some(Handle::SyncReader(x)) => x.read_vectored(&mut parts),
                        Some(Handle::SyncLinker(x)) => x.read_vectored(&mut parts),
                        #[cfg(feature = "fl-asyncstd")]
                        Some(Handle::Reader(x)) => block_on(futures::AsyncReadExt::read_vectored(x, &mut parts)),
                        #[cfg(feature = "fl-asyncstd")]
                        Some(Handle::Linker(x)) => block_on(futures::AsyncReadExt::read_vectored(x, &mut parts)),
                        _ => return Err(json!({"variant":"Driver","text":"no vectored read on this handle"})),
                    }
                };
                r.map(|k| bytes_val(&buf[..k])).map_err(|e| raw_io(&e))
            }
            // read() in a loop with a buffer of n bytes until it returns 0
            "r_read_all" => {
                let h = req["h"].as_u64().unwrap();
                let n = req["n"].as_u64().unwrap() as usize;
                let mut buf = vec![0u8; n];
                let mut acc: Vec<u8> = Vec::new();
                let mut calls = 0u64;
                loop {
                    let r = match self.handles.get_mut(&h) {
                        Some(Handle::SyncReader(x)) => x.read(&mut buf),
                        Some(Handle::SyncLinker(x)) => x.read(&mut buf),
                        #[cfg(not(feature = "sync-code"))]
                        Some(Handle::Reader(x)) => block_on(x.read(&mut buf)),
                        #[cfg(not(feature = "sync-code"))]
                        Some(Handle::Linker(x)) => block_on(x.read(&mut buf)),
                        _ => return Err(json!({"variant":"Driver","text":"no such reader"})),
                    };
                    calls += 1;
                    match r {
                        Ok(0) => break,
                        Ok(k) => acc.extend_from_slice(&buf[..k]),
                        Err(e) => return Err(raw_io(&e)),
                    }
                }
                let mut v = bytes_val(&acc);
                v["calls"] = json!(calls);
                Ok(v)
            }
            // the provided method read_to_end(), appending to a vector that already holds
            // `prefill` (an assembly buffer); returns what was appended
            "r_read_to_end" => {
                let h = req["h"].as_u64().unwrap();
                let mut acc: Vec<u8> = match req.get("prefill") {
                    Some(p) if p.is_object() => get_data(p),
                    _ => Vec::new(),
                };
                let pre = acc.len();
                let r = match self.handles.get_mut(&h) {
                    Some(Handle::SyncReader(x)) => x.read_to_end(&mut acc),
                    Some(Handle::SyncLinker(x)) => x.read_to_end(&mut acc),
                    #[cfg(not(feature = "sync-code"))]
                    Some(Handle::Reader(x)) => block_on(x.read_to_end(&mut acc)),
                    #[cfg(not(feature = "sync-code"))]
                    Some(Handle::Linker(x)) => block_on(x.read_to_end(&mut acc)),
                    _ => return Err(json!({"variant":"Driver","text":"no such reader"})),
                };
                match r {
                    Ok(n) => {
                        let mut v = bytes_val(&acc[pre..]);
                        v["n"] = json!(n);
                        v["prefix_kept"] = json!(pre <= acc.len());
                        Ok(v)
                    }
                    Err(e) => Err(raw_io(&e)),
                }
            }
            // io::copy from the reader into a vector (std::io::copy / futures::io::copy / tokio::io::copy)
            "r_copy" => {
                let h = req["h"].as_u64().unwrap();
                let mut acc: Vec<u8> = Vec::new();
                let r = match self.handles.get_mut(&h) {
                    Some(Handle::SyncReader(x)) => std::io::copy(x, &mut acc),
                    Some(Handle::SyncLinker(x)) => std::io::copy(x, &mut acc),
                    #[cfg(feature = "fl-asyncstd")]
                    Some(Handle::Reader(x)) => block_on(futures::io::copy(x, &mut futures::io::Cursor::new(&mut acc))),
                    #[cfg(feature = "fl-asyncstd")]
                    Some(Handle::Linker(x)) => block_on(futures::io::copy(x, &mut futures::io::Cursor::new(&mut acc))),
                    #[cfg(feature = "fl-tokio")]
                    Some(Handle::Reader(x)) => block_on(tokio::io::copy(x, &mut acc)),
                    #[cfg(feature = "fl-tokio")]
                    Some(Handle::Linker(x)) => block_on(tokio::io::copy(x, &mut acc)),
                    _ => return Err(json!({"variant":"Driver","text":"no such reader"})),
                };
                match r {
                    Ok(n) => {
                        let mut v = bytes_val(&acc);
                        v["n"] = json!(n);
                        Ok(v)
                    }
                    Err(e) => Err(raw_io(&e)),
                }
            }
            // read_exact(n): fills the buffer or fails with UnexpectedEof
            "r_read_exact" => {
                let h = req["h"].as_u64().unwrap();
                let n = req["n"].as_u64().unwrap() as usize;
                let mut buf = vec![0u8; n];
                let r = match self.handles.get_mut(&h) {
                    Some(Handle::SyncReader(x)) => x.read_exact(&mut buf).map(|_| n),
                    #[cfg(not(feature = "sync-code"))]
                    Some(Handle::Reader(x)) => block_on(x.read_exact(&mut buf)).map(|_| n),
                    _ => return Err(json!({"variant":"Driver","text":"no such reader"})),
                };
                r.map(|k| bytes_val(&buf[..k])).map_err(|e| raw_io(&e))
            }
            "r_check" => {
                let h = req["h"].as_u64().unwrap();
                match self.handles.remove(&h) {
                    Some(Handle::SyncReader(x)) => lift(x.check(), |a| json!(a.to_string())),
                    #[cfg(not(feature = "sync-code"))]
                    Some(Handle::Reader(x)) => lift(x.check(), |a| json!(a.to_string())),
                    _ => Err(json!({"variant":"Driver","text":"no such reader"})),
                }
            }

            // ------------------------------------------------ linker handles
            "open_linker" => {
                let sync = req["sync"].as_bool().unwrap_or(true);
                let key = req.get("key").and_then(|x| x.as_str());
                let target = s(req, "target");
                let has_opts = req.get("opts").map(|o| o.is_object()).unwrap_or(false);
                if sync {
                    let r = match (has_opts, key) {
                        (true, Some(k)) => opts_of(req.get("opts")).link_to_sync(&cache, k, target),
                        (true, None) => opts_of(req.get("opts")).link_to_hash_sync(&cache, target),
                        (false, Some(k)) => cacache::SyncToLinker::open(&cache, k, target),
                        (false, None) => cacache::SyncToLinker::open_hash(&cache, target),
                    };
                    match r {
                        Ok(x) => Ok(self.put(Handle::SyncLinker(x))),
                        Err(e) => Err(hold(e)),
                    }
                } else {
                    asy!({
                        let r = match (has_opts, key) {
                            (true, Some(k)) => block_on(opts_of(req.get("opts")).link_to(&cache, k, target)),
                            (true, None) => block_on(opts_of(req.get("opts")).link_to_hash(&cache, target)),
                            (false, Some(k)) => block_on(cacache::ToLinker::open(&cache, k, target)),
                            (false, None) => block_on(cacache::ToLinker::open_hash(&cache, target)),
                        };
                        match r {
                            Ok(x) => Ok(self.put(Handle::Linker(x))),
                            Err(e) => Err(hold(e)),
                        }
                    })
                }
            }
            "l_commit" => {
                let h = req["h"].as_u64().unwrap();
                match self.handles.remove(&h) {
                    Some(Handle::SyncLinker(x)) => lift(x.commit(), |i| json!(i.to_string())),
                    #[cfg(not(feature = "sync-code"))]
                    Some(Handle::Linker(x)) => lift(block_on(x.commit()), |i| json!(i.to_string())),
                    _ => Err(json!({"variant":"Driver","text":"no such linker"})),
                }
            }

            // ------------------------------------------------ misc
            "chdir" => {
                let d = match req.get("dir_hex").and_then(|x| x.as_str()) {
                    Some(h) => path_of_hex(h),
                    None => PathBuf::from(s(req, "dir")),
                };
                std::env::set_current_dir(d).map(|_| Value::Null).map_err(|e| raw_io(&e))
            }
            // XXH3-128 of the given data, computed with the xxhash crate directly (not through
            // cacache): lets the orchestrator name xxh3 addresses without an own implementation
            "xxh3" => {
                let d = get_data(&req["data"]);
                Ok(json!(hex::encode(xxhash_rust::xxh3::xxh3_128(&d).to_be_bytes())))
            }
            "ping" => Ok(json!({"flavour": FLAVOUR, "pid": std::process::id()})),
            // the process dies on the spot (no destructor runs): what it was doing stays as it is
            "die" => std::process::abort(),
            "live_handles" => Ok(json!(self.handles.len())),
            _ => Err(json!({"variant":"Driver","text":format!("unknown op {op}")})),
        }
    }

    fn run(&mut self, req: &Value) -> Value {
        let t0 = now_ms();
        let res = catch_unwind(AssertUnwindSafe(|| self.call(req)));
        let t1 = now_ms();
        let mut out = Map::new();
        if let Some(id) = req.get("id") {
            out.insert("id".into(), id.clone());
        }
        match res {
            Ok(Ok(v)) => {
                out.insert("ok".into(), json!(true));
                out.insert("val".into(), v);
            }
            Ok(Err(e)) => {
                out.insert("ok".into(), json!(false));
                out.insert("err".into(), e);
            }
            Err(p) => {
                let msg = if let Some(s) = p.downcast_ref::<&str>() {
                    s.to_string()
                } else if let Some(s) = p.downcast_ref::<String>() {
                    s.clone()
                } else {
                    "panic".to_string()
                };
                out.insert("ok".into(), json!(false));
                out.insert("panic".into(), json!(msg));
            }
        }
        out.insert("t0".into(), json!(t0.to_string()));
        out.insert("t1".into(), json!(t1.to_string()));
        Value::Object(out)
    }
}

fn main() {
    std::panic::set_hook(Box::new(|_| {}));
    let args: Vec<String> = std::env::args().collect();
    let mut drv = Drv { handles: HashMap::new(), next: 0 };
    if args.len() >= 3 && args[1] == "ops" {
        // one-shot mode: argv[2] is a JSON array of requests, executed in order.
        // Used as the traced child of the lock-step tracer.
        let reqs: Value = serde_json::from_str(&args[2]).expect("driver: bad ops json");
        let out = std::io::stdout();
        for r in reqs.as_array().expect("driver: ops must be an array") {
            let resp = drv.run(r);
            let failed = resp.get("ok").and_then(|x| x.as_bool()) != Some(true);
            let mut o = out.lock();
            let _ = writeln!(o, "{}", resp);
            let _ = o.flush();
            if failed {
                // a caller stops at the first error: the remaining requests of the sequence
                // (further chunks, the commit) are not issued; open handles are dropped
                break;
            }
        }
        return;
    }
    let stdin = std::io::stdin();
    let out = std::io::stdout();
    for line in stdin.lock().lines() {
        let line = match line {
            Ok(l) => l,
            Err(_) => break,
        };
        if line.trim().is_empty() {
            continue;
        }
        let req: Value = match serde_json::from_str(&line) {
            Ok(v) => v,
            Err(e) => {
                let mut o = out.lock();
                let _ = writeln!(o, "{}", json!({"ok": false, "err": {"variant":"Driver","text": e.to_string()}}));
                let _ = o.flush();
                continue;
            }
        };
        if req.get("op").and_then(|x| x.as_str()) == Some("quit") {
            break;
        }
        release_held();
        let resp = drv.run(&req);
        let mut o = out.lock();
        let _ = writeln!(o, "{}", resp);
        let _ = o.flush();
    }
}
