#!/usr/bin/env python3
"""Regenerate /verif/MANIFEST.json from the table below (kept valid at all times)."""
import json
import os
import sys

VERIF = os.path.dirname(os.path.dirname(os.path.abspath(__file__)))
sys.path.insert(0, VERIF)

API = ("TLC model checking of the API contract (spec/Cacache.tla via MC_Core) + TLC trace validation "
       "(spec/TraceAPI.tla) of recorded executions of the real library in five lanes (sync build; async-std "
       "and tokio builds, sync and async entry points)")
TB_API = ("Trusted: TLC; the Python reference reader/projection (vf/refimpl.py, hashlib, json) that turns "
          "directories and returned values into abstract identifiers; collision freedom of the digests. "
          "Exhaustive only for the small constants of the model configurations; the implementation side is "
          "sampled by seeded generators (VERIF_SEED).")

FS = {"C03", "C04", "C07", "C13", "C15"}
FS_T = ("TLC trace validation (spec/TraceFS.tla, SerialAPI.tla, TraceLayout.tla, reusing the contract Cacache.tla) of "
        "system-call level executions of the real library driven by a ptrace lock-step tracer (kill / torn write / errno "
        "injection / scheduling at every visible system call); TLC model checking of IndexFormat.tla / CacacheFS.tla")
TB_FS = ("Trusted: TLC; the tracer sysched (ptrace) and its classification of visible calls; the Python reference "
         "projection; the kernel's process-kill semantics as crash model (no power-loss reordering). Crash, fault and "
         "schedule positions are enumerated exhaustively for the listed operations; torn lengths exhaustively where "
         "stated; data values and schedules beyond that are sampled with VERIF_SEED.")

CLAIMED = {
    "C01": ("4.C01", "Contract actions Read/Extract/Check fix the result of every checked retrieval as a function "
            "of the content state; TLC checks CheckedNeverWrong over all damage classes x entry points, and validates "
            "traces in which real content files are bit-flipped, truncated, extended, replaced, swapped and "
            "symlinked before every checked retrieval entry point is called (every bit flip / truncation of small files)."),
    "C02": ("4.C02", "Writer actions (OpenWriter/WriteChunk/Commit, one-shot writes) with RoundTrip checked by TLC over "
            "chunkings; recorded round trips over hostile keys, 0 B..3 MiB data around the mmap threshold, chunkings, "
            "five algorithms and all write entry points are validated against the contract by TLC."),
    "C05": ("4.C05", "LookupRefinesMap: the append-only bucket log with last-wins fold refines a plain key->entry map "
            "(exhaustive for histories up to length 4-5 over 2 keys, also with all keys colliding in one bucket); random "
            "histories of 15-300 steps on the real library are validated step by step, each followed by lookups of every key."),
    "C08": ("4.C08", "Commit == Publish ; CheckIntegrity ; CheckSize ; IndexInsert with ssri's matches transcribed; "
            "CommitVerdict/OnlyCommitMaps checked by TLC; recorded commits over declared size/integrity variants, prior "
            "key states and both sides of the mmap threshold validated against it."),
    "C09": ("4.C09", "Frame conditions of Remove/RemoveHash/RemoveFully/Clear as the action property RemovalFrame (TLC, "
            "exhaustive for small histories); recorded histories with all four removals are validated with the whole "
            "directory projection compared after every call."),
    "C10": ("4.C10", "ListAgrees on the token-level bucket model (IndexFormat.tla: reverse+dedup listing == fold lookup "
            "on every damaged or undamaged bounded file) and ListMatchesMap on the contract; listings of the real "
            "library are compared as multisets of full entries with the specification's Listing after every step."),
    "C11": ("4.C11", "IndexInsert stores the option record verbatim and Lookup/Listing return it; defaults (time inside "
            "the call's clock window, size = bytes written, metadata null); values come from a seeded generator of hostile "
            "keys, extreme timestamps, nested JSON, raw bytes; identity of returned values decided concretely, which value "
            "must come back decided by TLC."),
    "C14": ("4.C14", "TmpAccounted (temp files == live writers) and OnlyCommitMaps checked by TLC with abandonment at every "
            "point; recorded abandonments (after open, after j chunks, in-flight background write, after close, rejected "
            "commit) validated, with tmp/ polled to quiescence."),
    "C16": ("4.C16", "Addresses are <<algorithm, data>> by construction; AddressesPure/RoundTrip checked by TLC; recorded "
            "histories re-writing equal data under five algorithms validated, addresses mapped to data through hashlib "
            "(and the xxhash crate for XXH3), content area compared file by file."),
    "C18": ("4.C18", "Extract action (copy overwrites, links refuse, verification before any effect) with CheckedNeverWrong "
            "checked by TLC over damage x entry point x destination state; recorded extractions with destinations observed "
            "in the projection validated by TLC."),
    "C06": ("4.C06", "IndexFormat.tla: token-level bucket file with every damage class; Contained (intact records stay "
            "effective, in order; nothing unappended is returned) checked exhaustively by TLC (the deviant stop-at-bad-UTF-8 "
            "reader violates it in <1 s); real buckets are cut at every length, bit-flipped, spliced with garbage / NUL / "
            "invalid UTF-8 lines, the reference lexer classifies the bytes and TLC derives what sync and async lookups and "
            "listings must return."),
    "C12": ("4.C12", "The contract is deterministic (up to timestamp interval and listing order), so equivalence follows from "
            "each flavour's traces being accepted by TLC against the same specification; in addition the same programs are "
            "run in three pure flavours and a mixed form and their per-step results and final projections compared."),
    "C17": ("4.C17", "Layout.tla states the format at byte level; TraceLayout.tla has TLC evaluate IsRecordLine/BucketPath/"
            "ContentPath on the bytes each call appended and on every new content path, with digests from hashlib; exact "
            "line-by-line agreement of the reference reader's projection with the ghost state; caches produced by the "
            "independent writer are read by the library in all lanes and compared with the specification."),
    "C19": ("4.C19", "LinkOneShot/OpenLinker/LinkerRead/LinkerCommit in the contract; TargetsUntouched and CheckedNeverWrong "
            "checked by TLC; recorded link_to programs (absolute/relative targets from several working directories, partial "
            "reads, declared size/integrity, targets changed/removed/replaced, pre-existing addresses) validated with the "
            "content symlink and the target bytes in the projection."),
    "C20": ("4.C20", "Totality: every contract action yields Ok or Err; the trace specifications have no action with a panic, "
            "hang or dead-process outcome, so TLC rejects any trace containing one; every call of a cross-section of all "
            "programs plus hostile directory states runs under catch_unwind and a 30 s watchdog."),
    "C03": ("4.C03", "ContentAtomic is evaluated by TLC (TraceFS.tla) on the directory projection after EVERY visible system "
            "call of every write variant and after a kill before every call / a data write torn at every (small) or "
            "sampled (large) length, on three flavours; the step rule StoreStep allows only complete data to appear "
            "under an address; short writes completed by the caller are included."),
    "C04": ("4.C04", "IndexFormat.tla: TornAtomic (a torn append changes no lookup, the next append is effective) checked "
            "exhaustively; on the real library every kill point and EVERY byte length of the index append of first "
            "writes, overwrites, removals with multi-byte UTF-8 is exercised under the lock-step tracer, TLC checks "
            "CrashAtomic / RecordsResolvable on the post-crash projection and validates a continuation history against the contract."),
    "C07": ("4.C07", "Processes interleaved at system-call granularity by the ptrace lock-step tracer; after every call TLC "
            "checks ContentAtomic, NoPartialRecord and the append-only / complete-publication step rules; for every run "
            "TLC searches a sequential order of the operations that reproduces all results and the final state using the "
            "contract's own actions (SerialAPI.tla)."),
    "C13": ("4.C13", "Every visible system call of every operation is failed with every applicable errno (and writes cut "
            "short then failed; pairs in thorough) by the tracer; TLC checks the step rule that a failed call changes "
            "nothing, ContentAtomic / RecordsResolvable on every projection, and at the end Truthful (error or truthful "
            "success), OthersUntouched, CrashAtomic; the retry without fault is validated against the contract."),
    "C15": ("4.C15", "The tracer reports every mutating path-taking call outside the watched roots and classifies every call "
            "inside; TLC (TraceFS.tla) rejects any outside mutation, any mutating call or state change by a read-only "
            "operation, any touched area other than tmp / index-v5 / content-v2 / destination; TraceLayout.tla checks that "
            "touched index/content paths are prefixes of the hashlib-derived bucket / content path; confusable keys "
            "validated as independent entries by TraceAPI."),
}

NOT_YET = {
}


def main():
    props = [json.loads(l)["id"] for l in open(os.path.join(VERIF, "properties.jsonl"))]
    checks = []
    for pid in props:
        if pid not in CLAIMED:
            continue
        ref, text = CLAIMED[pid]
        checks.append({
            "property_id": pid,
            "quick_cmd": "./check %s --tier quick" % pid,
            "thorough_cmd": "./check %s --tier thorough" % pid,
            "evidence_file": "/verif/evidence/%s.json" % pid,
            "replay_cmd_template": "./check %s --replay {path}" % pid,
            "engine": "tla-fs" if pid in FS else "tla-trace",
            "level_claimed": {"category": "model_checking", "text": text, "design_ref": "DESIGN.md section " + ref},
            "level_note": TB_FS if pid in FS else TB_API,
            "technique": FS_T if pid in FS else API,
        })
    m = {
        "version": 1,
        "setup_cmd": "tools/build && tools/sany",
        "hooks": {"guard": "cacache_verif",
                  "enable": "rustflags --cfg cacache_verif in /verif/harness/.cargo/config.toml (the guard is reserved; "
                            "no source hook is needed: everything is observed through the public API, the directory and ptrace)",
                  "baseline_off_cmd": "cd /repo && cargo test --workspace --no-fail-fast --offline",
                  "source_commits": [], "add_only": True},
        "engines": [{"name": "tla-fs", "path": "/verif/sysched", "serves_properties": sorted(FS),
                     "kind_free_text": "ptrace lock-step tracer producing system-call level traces validated by TLC"},
                    {"name": "tla-trace", "path": "/verif/spec", "serves_properties": sorted(set(CLAIMED) - FS),
                     "kind_free_text": "explicit TLA+ specification family checked with TLC; conformance by trace "
                                       "validation of recorded executions and replay of specification behaviours"}],
        "checks": checks,
        "not_applicable": [{"property_id": p, "reason": NOT_YET[p]} for p in props if p not in CLAIMED],
        "notes": "See DESIGN.md. known_findings.json lists fixed defects (fix: commits in /repo) and known findings.",
    }
    with open(os.path.join(VERIF, "MANIFEST.json"), "w") as f:
        json.dump(m, f, indent=1)
    print("claimed:", len(checks), "not claimed:", len(m["not_applicable"]))


if __name__ == "__main__":
    main()
